"""Independent float64 reference for rigid-body superposition (C16).

Nothing here imports biotite.  Three textbook routes to the same optimum are
kept apart on purpose so that they can cross-check each other:

* ``horn_min_msd``  - Horn (1987): the minimal sum of squared deviations over
  all proper rotations + translations equals  Ga + Gb - 2*lambda_max(N),
  N the symmetric 4x4 quaternion matrix of the cross-covariance of the
  centred point sets.  No rotation is ever constructed.
* ``kabsch``        - Kabsch (1976/78) with the determinant correction, float64
  SVD; returns the placement itself (used for the documented outlier
  algorithm and as a second opinion on the optimum).
* brute force       - ``ROT24`` (the proper rotation group of the cube: all
  signed permutation matrices with determinant +1) and ``perturbations()``
  (small rigid motions about a pivot) give upper bounds / local-optimality
  witnesses.

All functions are vectorised over leading axes: point sets have shape
(..., n, 3).
"""

import itertools

import numpy as np


# ---------------------------------------------------------------------------
# finite groups / palettes
# ---------------------------------------------------------------------------
def _rot24():
    out = []
    for perm in itertools.permutations(range(3)):
        for signs in itertools.product((1, -1), repeat=3):
            m = np.zeros((3, 3), dtype=np.int64)
            for r in range(3):
                m[r, perm[r]] = signs[r]
            # determinant of a signed permutation matrix, by cofactor expansion (integers)
            d = (m[0, 0] * (m[1, 1] * m[2, 2] - m[1, 2] * m[2, 1])
                 - m[0, 1] * (m[1, 0] * m[2, 2] - m[1, 2] * m[2, 0])
                 + m[0, 2] * (m[1, 0] * m[2, 1] - m[1, 1] * m[2, 0]))
            if d == 1:
                out.append(m)
    assert len(out) == 24
    # identity first, then a fixed order
    out.sort(key=lambda m: (not np.array_equal(m, np.eye(3, dtype=np.int64)), m.tolist()))
    return out


ROT24 = _rot24()
ROT24_F = np.array(ROT24, dtype=np.float64)
# the full symmetry group of the cube: indices 0..23 proper, 24..47 = -g (the improper elements)
OCT48_F = np.concatenate([ROT24_F, -ROT24_F])


def rotate_points(points, rot, pivot=None):
    """rot (3,3) applied to points (...,n,3) about pivot (3,) (default origin)."""
    p = np.asarray(points, dtype=np.float64)
    if pivot is None:
        return p @ np.asarray(rot, dtype=np.float64).T
    pv = np.asarray(pivot, dtype=np.float64)
    return (p - pv) @ np.asarray(rot, dtype=np.float64).T + pv


def axis_rotation(axis, angle):
    c, s = np.cos(angle), np.sin(angle)
    if axis == 0:
        return np.array([[1, 0, 0], [0, c, -s], [0, s, c]], dtype=np.float64)
    if axis == 1:
        return np.array([[c, 0, s], [0, 1, 0], [-s, 0, c]], dtype=np.float64)
    return np.array([[c, -s, 0], [s, c, 0], [0, 0, 1]], dtype=np.float64)


def axis_angle_rotation(axis, angle):
    """Rodrigues: right-handed rotation by `angle` about the direction `axis` (any length)."""
    k = np.asarray(axis, dtype=np.float64)
    k = k / np.sqrt(np.sum(k * k))
    K = np.array([[0, -k[2], k[1]], [k[2], 0, -k[0]], [-k[1], k[0], 0]], dtype=np.float64)
    return np.eye(3) + np.sin(angle) * K + (1.0 - np.cos(angle)) * (K @ K)


def perturbations(angle=0.02, shift=0.02):
    """48 small rigid motions: {identity, +-angle about x, y, z} x {zero, +-shift along x, y, z}
    without (identity, zero).  Returns (rotations (48,3,3), shifts (48,3))."""
    rots = [np.eye(3)] + [axis_rotation(a, sg * angle) for a in range(3) for sg in (1, -1)]
    shs = [np.zeros(3)]
    for a in range(3):
        for sg in (1, -1):
            v = np.zeros(3)
            v[a] = sg * shift
            shs.append(v)
    R, T = [], []
    for i, r in enumerate(rots):
        for j, t in enumerate(shs):
            if i == 0 and j == 0:
                continue
            R.append(r)
            T.append(t)
    return np.array(R), np.array(T)


# ---------------------------------------------------------------------------
# measures
# ---------------------------------------------------------------------------
def _wmean(x, w):
    """mean over the atom axis (-2) of x (...,n,3) with optional 0/1 weights w (...,n)."""
    if w is None:
        return x.mean(axis=-2, keepdims=True)
    return np.sum(x * w[..., None], axis=-2, keepdims=True) / np.sum(w, axis=-1)[..., None, None]


def msd(a, b, w=None):
    """mean squared deviation over the atom axis; a, b (...,n,3) broadcastable; w: optional
    0/1 weights (...,n) selecting the atoms that count."""
    d = np.asarray(a, dtype=np.float64) - np.asarray(b, dtype=np.float64)
    sq = np.sum(d * d, axis=-1)
    if w is None:
        return np.mean(sq, axis=-1)
    return np.sum(sq * w, axis=-1) / np.sum(w, axis=-1)


def rmsd(a, b, w=None):
    return np.sqrt(msd(a, b, w))


def horn_min_msd(fixed, mobile, w=None):
    """Minimal mean squared deviation (over the atoms selected by the 0/1 weights w, default
    all) between `fixed` and any proper rigid placement of `mobile` (shapes (...,n,3),
    broadcast against each other), float64, closed form."""
    a = np.asarray(fixed, dtype=np.float64)
    b = np.asarray(mobile, dtype=np.float64)
    a, b = np.broadcast_arrays(a, b)
    if w is None:
        ww = np.ones(a.shape[:-1], dtype=np.float64)
    else:
        ww = np.broadcast_to(np.asarray(w, dtype=np.float64), a.shape[:-1])
    n = np.sum(ww, axis=-1)
    a = a - _wmean(a, ww)
    b = b - _wmean(b, ww)
    ga = np.sum(np.sum(a * a, axis=-1) * ww, axis=-1)
    gb = np.sum(np.sum(b * b, axis=-1) * ww, axis=-1)
    # S[x][y] = sum_i w_i * b_ix * a_iy   (mobile is rotated onto fixed)
    S = np.einsum("...i,...ix,...iy->...xy", ww, b, a)
    Sxx, Sxy, Sxz = S[..., 0, 0], S[..., 0, 1], S[..., 0, 2]
    Syx, Syy, Syz = S[..., 1, 0], S[..., 1, 1], S[..., 1, 2]
    Szx, Szy, Szz = S[..., 2, 0], S[..., 2, 1], S[..., 2, 2]
    N = np.empty(S.shape[:-2] + (4, 4), dtype=np.float64)
    N[..., 0, 0] = Sxx + Syy + Szz
    N[..., 0, 1] = N[..., 1, 0] = Syz - Szy
    N[..., 0, 2] = N[..., 2, 0] = Szx - Sxz
    N[..., 0, 3] = N[..., 3, 0] = Sxy - Syx
    N[..., 1, 1] = Sxx - Syy - Szz
    N[..., 1, 2] = N[..., 2, 1] = Sxy + Syx
    N[..., 1, 3] = N[..., 3, 1] = Szx + Sxz
    N[..., 2, 2] = -Sxx + Syy - Szz
    N[..., 2, 3] = N[..., 3, 2] = Syz + Szy
    N[..., 3, 3] = -Sxx - Syy + Szz
    lam = np.linalg.eigvalsh(N)[..., -1]
    return np.maximum(ga + gb - 2.0 * lam, 0.0) / n


def kabsch(fixed, mobile):
    """float64 Kabsch.  Returns (R, cf, cm): the optimal placement of a point x of the mobile
    frame is  R @ (x - cm) + cf.   Shapes (...,3,3), (...,3), (...,3)."""
    a = np.asarray(fixed, dtype=np.float64)
    b = np.asarray(mobile, dtype=np.float64)
    a, b = np.broadcast_arrays(a, b)
    cf = a.mean(axis=-2)
    cm = b.mean(axis=-2)
    a0 = a - cf[..., None, :]
    b0 = b - cm[..., None, :]
    H = np.einsum("...ix,...iy->...xy", b0, a0)  # mobile^T fixed
    U, s, Vt = np.linalg.svd(H)
    d = np.sign(np.linalg.det(U) * np.linalg.det(Vt))
    d = np.where(d == 0, 1.0, d)
    D = np.zeros(H.shape, dtype=np.float64)
    D[..., 0, 0] = 1.0
    D[..., 1, 1] = 1.0
    D[..., 2, 2] = d
    # R = V D U^T
    R = np.swapaxes(Vt, -1, -2) @ D @ np.swapaxes(U, -1, -2)
    return R, cf, cm


def uniqueness_gap(fixed, mobile):
    """(s2 + d*s3)/s1 of the cross-covariance (singular values s1>=s2>=s3, d = sign of its
    determinant): the optimal rotation is unique iff this is > 0 (Kabsch 1978); 0 for s1 = 0."""
    a = np.asarray(fixed, dtype=np.float64)
    b = np.asarray(mobile, dtype=np.float64)
    a, b = np.broadcast_arrays(a, b)
    a0 = a - a.mean(axis=-2, keepdims=True)
    b0 = b - b.mean(axis=-2, keepdims=True)
    H = np.einsum("...ix,...iy->...xy", b0, a0)
    U, s, Vt = np.linalg.svd(H)
    d = np.sign(np.linalg.det(U) * np.linalg.det(Vt))
    d = np.where(d == 0, 1.0, d)
    with np.errstate(invalid="ignore", divide="ignore"):
        g = (s[..., 1] + d * s[..., 2]) / s[..., 0]
    return np.where(s[..., 0] > 0, g, 0.0)


def place(R, cf, cm, points):
    p = np.asarray(points, dtype=np.float64)
    return np.einsum("...xy,...iy->...ix", R, p - cm[..., None, :]) + cf[..., None, :]


def group_upper_bound_msd(fixed, mobile):
    """min over the 24 cube rotations (centroids matched) of the msd: a brute-force upper bound
    of the optimum (and the optimum itself when mobile is a cube-rotated copy)."""
    a = np.asarray(fixed, dtype=np.float64)
    b = np.asarray(mobile, dtype=np.float64)
    a, b = np.broadcast_arrays(a, b)
    a0 = a - a.mean(axis=-2, keepdims=True)
    b0 = b - b.mean(axis=-2, keepdims=True)
    best = None
    for g in ROT24_F:
        v = msd(a0, b0 @ g.T)
        best = v if best is None else np.minimum(best, v)
    return best


def perturbed_min_msd_bruteforce(fixed, placed, prot, pshift, w=None):
    """min over the perturbations (rotation about the centroid of the selected atoms of
    `placed`, then shift) of msd(fixed, perturbed placed) over the selected atoms.
    fixed/placed (...,n,3), w optional 0/1 weights (...,n)."""
    a = np.asarray(fixed, dtype=np.float64)
    p = np.asarray(placed, dtype=np.float64)
    a, p = np.broadcast_arrays(a, p)
    if w is None:
        ww = np.ones(a.shape[:-1], dtype=np.float64)
    else:
        ww = np.broadcast_to(np.asarray(w, dtype=np.float64), a.shape[:-1])
    c = _wmean(p, ww)
    p0 = p - c
    # (...,k,n,3)
    q = np.einsum("kxy,...iy->...kix", prot, p0) + c[..., None, :, :] + pshift[:, None, :]
    d = q - a[..., None, :, :]
    sq = np.sum(d * d, axis=-1)  # (...,k,n)
    m = np.sum(sq * ww[..., None, :], axis=-1) / np.sum(ww, axis=-1)[..., None]
    return np.min(m, axis=-1)


def perturbed_min_msd(fixed, placed, prot, pshift, w=None):
    """Same value as perturbed_min_msd_bruteforce without building the perturbed point sets:
    with p0 = placed - centroid (so sum w*p0 = 0) and e = fixed - centroid,
      sum w |R p0 + t - e|^2 = sum w|p0|^2 + sum w|e - t|^2 - 2 sum_xy R_xy C_xy,
      C_xy = sum_i w_i e_ix p0_iy."""
    a = np.asarray(fixed, dtype=np.float64)
    p = np.asarray(placed, dtype=np.float64)
    a, p = np.broadcast_arrays(a, p)
    if w is None:
        ww = np.ones(a.shape[:-1], dtype=np.float64)
    else:
        ww = np.broadcast_to(np.asarray(w, dtype=np.float64), a.shape[:-1])
    c = _wmean(p, ww)
    p0 = p - c
    e = a - c
    nn = np.sum(ww, axis=-1)
    gp = np.sum(np.sum(p0 * p0, axis=-1) * ww, axis=-1)
    ge = np.sum(np.sum(e * e, axis=-1) * ww, axis=-1)
    se = np.sum(e * ww[..., None], axis=-2)  # (...,3)
    C = np.einsum("...i,...ix,...iy->...xy", ww, e, p0)
    rc = np.einsum("kxy,...xy->...k", prot, C)
    tt = np.sum(pshift * pshift, axis=-1)  # (k,)
    st = np.einsum("kx,...x->...k", pshift, se)
    tot = gp[..., None] + ge[..., None] - 2.0 * st + nn[..., None] * tt - 2.0 * rc
    return np.maximum(np.min(tot, axis=-1), 0.0) / nn


_PERT = perturbations()


def self_check(fixed, mobile, tol=1e-9, stride=1):
    """Cross-check of the three routes on one batch; returns a message or None.
    Horn vs Kabsch is compared for every item; the brute-force witnesses (24 rotations,
    perturbations) for every `stride`-th item."""
    h = horn_min_msd(fixed, mobile)
    R, cf, cm = kabsch(fixed, mobile)
    a = np.asarray(fixed, dtype=np.float64)
    b = np.asarray(mobile, dtype=np.float64)
    a, b = np.broadcast_arrays(a, b)
    k = msd(a, place(R, cf, cm, b))
    scale = 1.0 + float(np.max(np.abs(a))) ** 2 + float(np.max(np.abs(b))) ** 2
    if np.any(np.abs(h - k) > tol * scale):
        return "Horn and Kabsch optimum differ by %g" % float(np.max(np.abs(h - k)))
    if a.ndim == 3 and stride > 1:
        a, b, h, R, cf, cm = a[::stride], b[::stride], h[::stride], R[::stride], cf[::stride], cm[::stride]
    g = group_upper_bound_msd(a, b)
    if np.any(g < h - tol * scale):
        return "a cube rotation beats the Horn optimum by %g" % float(np.max(h - g))
    det = np.linalg.det(R)
    if np.any(np.abs(det - 1.0) > 1e-9):
        return "reference rotation improper"
    pr, ps = _PERT
    placed = place(R, cf, cm, b)
    pm = perturbed_min_msd(a, placed, pr, ps)
    pb = perturbed_min_msd_bruteforce(a[:8], placed[:8], pr, ps)
    if np.any(np.abs(pb - pm[:8]) > tol * scale):
        return "fast and brute-force perturbation minimum differ"
    if np.any(pm < h - tol * scale):
        return "a small perturbation of the reference placement beats the Horn optimum by %g" % float(np.max(h - pm))
    return None


# ---------------------------------------------------------------------------
# lattice point sets up to rotation
# ---------------------------------------------------------------------------
def lattice_sets(size, side=3):
    """All subsets with `size` points of {0..side-1}^3, one representative per orbit of the 24
    rotations of the cube about its centre (mirror images are kept apart).  Returns a list of
    tuples of points (sorted)."""
    pts = list(itertools.product(range(side), repeat=3))
    c2 = side - 1  # twice the centre
    images = []
    for g in ROT24:
        mp = {}
        for p in pts:
            v = [2 * x - c2 for x in p]
            w = [sum(int(g[r, k]) * v[k] for k in range(3)) for r in range(3)]
            mp[p] = tuple((x + c2) // 2 for x in w)
        images.append(mp)
    seen = set()
    reps = []
    for sub in itertools.combinations(pts, size):
        if sub in seen:
            continue
        orbit = {tuple(sorted(mp[p] for p in sub)) for mp in images}
        seen |= orbit
        reps.append(min(orbit))
    return reps


def rank_class(points):
    """'point' / 'collinear' / 'planar' / 'spatial' for a point set (exact for integer input)."""
    p = np.asarray(points, dtype=np.float64)
    if len(p) == 1:
        return "point"
    r = np.linalg.matrix_rank(p - p.mean(axis=0), tol=1e-9)
    return {0: "point", 1: "collinear", 2: "planar", 3: "spatial"}[int(r)]


# ---------------------------------------------------------------------------
# the documented outlier-removal loop (Notes of superimpose_without_outliers)
# ---------------------------------------------------------------------------
def outlier_reference(fixed, mobile, min_anchors, max_iterations, quantiles, threshold, margin=1e-3):
    """Plain float64 re-statement of the documented iteration.
    fixed (n,3) or (m,n,3); mobile (n,3) or (m,n,3).
    Returns (anchor index list, ambiguous flag).  `ambiguous` is set when some squared distance
    came within `margin` (relative) of the decision threshold, i.e. float32 vs float64 could
    legitimately decide differently; the anchors are then not to be compared."""
    a = np.asarray(fixed, dtype=np.float64)
    b = np.asarray(mobile, dtype=np.float64)
    n = a.shape[-2]
    anchors = np.arange(n)
    qlo, qhi = sorted(quantiles)
    ambiguous = False
    used = anchors
    for _ in range(max_iterations):
        used = anchors
        fa = a[..., anchors, :]
        mb = b[..., anchors, :]
        if np.any(uniqueness_gap(fa, mb) <= margin):
            # optimal placement not unique (or ill-conditioned): the per-atom distances are not determined
            ambiguous = True
            break
        R, cf, cm = kabsch(fa, mb)
        fa_b, _ = np.broadcast_arrays(fa, mb)
        placed = place(R, cf, cm, np.broadcast_arrays(fa, mb)[1])
        d2 = np.sum((fa_b - placed) ** 2, axis=-1)
        if d2.ndim == 2:
            d2 = d2.mean(axis=0)
        lo, hi = np.quantile(d2, [qlo, qhi])
        thr = hi + threshold * (hi - lo)
        vi = qhi * (len(d2) - 1)
        if threshold == 0 and vi == round(vi):
            # the threshold IS one of the squared distances (an order statistic, no interpolation, no IPR term):
            # an exact tie in any arithmetic.  Documented rule: outlier iff d^2 > threshold, so the tied atom and
            # everything below it stay; only the gap to the next larger distance has to be clear.
            k = int(round(vi))
            order = np.argsort(d2, kind="stable")
            ds = d2[order]
            if k + 1 < len(ds) and ds[k + 1] - ds[k] <= margin * (1.0 + abs(thr)):
                ambiguous = True
                break
            keep = np.zeros(len(d2), dtype=bool)
            keep[order[: k + 1]] = True
        else:
            if np.any(np.abs(d2 - thr) <= margin * (1.0 + abs(thr))):
                ambiguous = True
                break
            keep = d2 <= thr
        if keep.all():
            break
        if np.count_nonzero(keep) < min_anchors:
            break
        anchors = anchors[keep]
    return [int(x) for x in used], ambiguous
