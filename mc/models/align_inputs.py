"""Listed input palettes for the alignment checks (C08, C09) and the glue that turns a
logical case (letters 0..k-1, a small logical matrix) into biotite objects.

A *setup* names the alphabets of the two sequences, a *family* names the kind of
substitution matrix, VERIF_SEED selects which listed variant of the family and which
embedding of the logical letters into a larger alphabet is used.  The embedding puts the
letters on non-adjacent codes of a bigger alphabet and fills every matrix entry that no
sequence can address with POISON, so that a lookup with a wrong code, a transposed lookup in
a rectangular matrix or a lookup past the used block changes the optimum visibly.
"""

import itertools

import numpy as np

POISON = 7777

# logical matrices: FAM[k1,k2][family] = [variant0, variant1, variant2]
FAM = {
    (2, 2): {
        "std": [[[2, -1], [-1, 2]], [[1, -1], [-1, 1]], [[5, -4], [-4, 5]]],
        "ident": [[[1, 0], [0, 1]], [[2, 0], [0, 2]], [[1, 0], [0, 3]]],
        "negident": [[[-1, 0], [0, -1]], [[-2, 0], [0, -2]], [[-1, 0], [0, -3]]],
        "allneg": [[[-1, -2], [-2, -1]], [[-2, -3], [-3, -1]], [[-1, -1], [-3, -2]]],
        "zero": [[[0, 0], [0, 0]], [[0, 0], [0, 0]], [[0, 0], [0, 0]]],
        "asym": [[[2, -1], [0, 2]], [[1, -1], [1, 1]], [[2, 0], [-1, 2]]],
        "large": [[[1000, -1], [-1, 1]], [[1, -1], [-1, 100000]], [[3, -2], [70000, 3]]],
        # two awkward features in one matrix
        "asymneg": [[[-1, -3], [-2, -1]], [[-2, -1], [-3, -2]], [[-1, -2], [-1, -3]]],       # asymmetric + all negative
        "largeneg": [[[1, -100000], [-1, 1]], [[-70000, 0], [0, -1]], [[2, -1], [-1000, 2]]],  # one large NEGATIVE entry
        "asymlarge": [[[1000, -1], [0, 1]], [[1, 1], [-1, 100000]], [[0, 70000], [-2, 3]]],   # asymmetric + large + ties
        "zerorow": [[[0, 0], [-1, 2]], [[2, -1], [0, 0]], [[0, 1], [0, -1]]],                 # zero row + asymmetric
    },
    (3, 3): {
        "std": [[[2, -1, -1], [-1, 2, -1], [-1, -1, 2]], [[1, -1, -1], [-1, 1, -1], [-1, -1, 1]],
                [[5, -4, -4], [-4, 5, -4], [-4, -4, 5]]],
        "ident": [[[1, 0, 0], [0, 1, 0], [0, 0, 1]], [[2, 0, 0], [0, 2, 0], [0, 0, 2]],
                  [[1, 0, 0], [0, 3, 0], [0, 0, 1]]],
        "negident": [[[-1, 0, 0], [0, -1, 0], [0, 0, -1]], [[-2, 0, 0], [0, -2, 0], [0, 0, -2]],
                     [[-1, 0, 0], [0, -3, 0], [0, 0, -1]]],
        "allneg": [[[-1, -2, -3], [-2, -1, -2], [-3, -2, -1]], [[-2, -3, -1], [-3, -1, -2], [-1, -1, -2]],
                   [[-1, -1, -1], [-3, -2, -1], [-2, -2, -3]]],
        "zero": [[[0, 0, 0], [0, 0, 0], [0, 0, 0]]] * 3,
        "asym": [[[2, -1, 0], [0, 2, -1], [1, 1, 2]], [[1, -1, 1], [1, 1, 0], [-1, 0, 1]],
                 [[2, 0, 1], [-1, 2, 2], [0, -2, 2]]],
        "large": [[[1000, -1, -1], [-1, 1, -1], [-1, -1, 1]], [[1, -1, -1], [-1, 100000, -1], [-1, -1, 1]],
                  [[3, -2, -2], [-2, 3, 70000], [-2, -2, 3]]],
    },
    (2, 3): {
        "rect": [[[1, -1, 0], [-2, 2, 1]], [[2, 0, -1], [-1, 1, 2]], [[1, 1, -2], [0, -1, 3]]],
        "rectneg": [[[-1, -2, -3], [-3, -1, -2]], [[-2, -1, -1], [-1, -3, -2]], [[-1, -3, -2], [-2, -2, -1]]],
    },
}

# embeddings: (codes used by the logical letters, alphabet size)
EMBED = {
    2: [((0, 1), 4), ((1, 3), 4), ((3, 0), 4), ((2, 1), 4)],
    3: [((0, 1, 2), 5), ((4, 0, 2), 5), ((1, 3, 4), 5), ((2, 4, 1), 5)],
}
# wide alphabets: > 256 symbols -> uint16 codes
EMBED_WIDE = {2: [((7, 299), 300), ((299, 0), 300), ((256, 255), 300), ((1, 257), 300)]}

GAPS = [0, -1, -3, (0, 0), (-1, -1), (-2, -1), (-1, -2), (-3, 0), (0, -2)]
GAPS_NEG = [-1, -3, (-1, -1), (-2, -1), (-1, -2), (-3, -1)]  # strictly negative (seeded gapped alignment)


def sequences(k, max_len, min_len=0):
    """Every sequence over letters 0..k-1 with min_len <= length <= max_len."""
    out = []
    for ln in range(min_len, max_len + 1):
        out.extend(itertools.product(range(k), repeat=ln))
    return out


def gap_json(g):
    return list(g) if isinstance(g, tuple) else g


def gap_from_json(g):
    return tuple(g) if isinstance(g, list) else g


def gap_class(g):
    if isinstance(g, tuple):
        return "affine"
    return "linear"


class Env:
    """Concrete biotite objects for one (setup, family, variant, embedding)."""

    def __init__(self, k1, k2, fam, variant, embed, dtype1="uint8", dtype2="uint8"):
        import biotite.sequence as bseq
        import biotite.sequence.align as balign

        self.k1, self.k2, self.fam, self.variant, self.embed = k1, k2, fam, variant, embed
        self.dtype1, self.dtype2 = dtype1, dtype2
        self.logical = FAM[(k1, k2)][fam][variant % len(FAM[(k1, k2)][fam])]
        wide1, wide2 = dtype1 == "uint16", dtype2 == "uint16"
        e1 = (EMBED_WIDE if wide1 else EMBED)[k1]
        e2 = (EMBED_WIDE if wide2 else EMBED)[k2]
        self.codes1, self.size1 = e1[embed % len(e1)]
        # one shared alphabet when both sequences have the same letters and alphabet width,
        # otherwise two different alphabets with different embeddings
        same = k1 == k2 and wide1 == wide2
        if same:
            self.codes2, self.size2 = self.codes1, self.size1
        else:
            self.codes2, self.size2 = e2[(embed + 1) % len(e2)]
        full = np.full((self.size1, self.size2), POISON, dtype=np.int32)
        for a in range(k1):
            for b in range(k2):
                full[self.codes1[a], self.codes2[b]] = self.logical[a][b]
        self.full = full
        self.mat = full.tolist()  # model matrix, indexed by code
        self.alph1 = bseq.Alphabet(list(range(self.size1)))
        self.alph2 = self.alph1 if same else bseq.Alphabet(list(range(self.size2)))
        self.matrix = balign.SubstitutionMatrix(self.alph1, self.alph2, full.copy())
        self._bseq = bseq
        self._cache1 = {}
        self._cache2 = {}
        self._wide = {}

    def _cls(self, dtype):
        """GeneralSequence, or a subclass whose public `code` has a wider unsigned dtype."""
        if dtype in ("uint8", "uint16"):
            return self._bseq.GeneralSequence
        c = self._wide.get(dtype)
        if c is None:
            base = self._bseq.GeneralSequence
            dt = np.dtype(dtype)

            class WideCodeSequence(base):
                @property
                def code(self):
                    return self._seq_code.astype(dt)

                @code.setter
                def code(self, value):
                    base.code.fset(self, value)

                def __copy_create__(self):
                    return WideCodeSequence(self._alphabet)

            c = self._wide[dtype] = WideCodeSequence
        return c

    def codes(self, which, letters):
        cm = self.codes1 if which == 1 else self.codes2
        return tuple(cm[x] for x in letters)

    def seq(self, which, letters):
        cache = self._cache1 if which == 1 else self._cache2
        s = cache.get(letters)
        if s is None:
            alph = self.alph1 if which == 1 else self.alph2
            s = self._cls(self.dtype1 if which == 1 else self.dtype2)(alph, list(self.codes(which, letters)))
            cache[letters] = s
        return s

    def mutated(self):
        """Cached input sequences whose code no longer equals what was put in."""
        bad = []
        for which, cache in ((1, self._cache1), (2, self._cache2)):
            for letters, s in cache.items():
                if tuple(int(x) for x in s.code) != self.codes(which, letters):
                    bad.append((which, letters))
        return bad

    def describe(self):
        return {"k": [self.k1, self.k2], "fam": self.fam, "variant": self.variant, "embed": self.embed,
                "dtypes": [self.dtype1, self.dtype2], "logical_matrix": self.logical,
                "codes": [list(self.codes1), list(self.codes2)]}


def trace_cols(trace):
    """ndarray trace -> tuple of (i, j) columns of Python ints."""
    return tuple((int(a), int(b)) for a, b in trace.tolist())
