"""Reference model for pairwise sequence alignment (shared by C08 and C09).

Written from the property statements and the public documentation of
``biotite.sequence.align`` (``align.score``: substitution scores of paired
symbols plus, per sequence row, ``open`` for the first and ``extend`` for every
further gap symbol of a run; terminal gaps free when requested;
``find_terminal_gaps``: "terminal gaps are gaps that appear before all sequences
start and after any sequence ends").  Nothing here imports biotite.

Vocabulary
    sequence   list/tuple of small ints (symbol codes)
    matrix     list of rows, ``mat[c1][c2]``
    gap        int (linear) or (open, extend) tuple (affine), all <= 0
    column     (i, j) - positions paired; (i, -1) / (-1, j) - symbol against gap
    alignment  tuple of columns ("trace")

Three independent pieces:
  * ``score_cols``      - the documented scoring model for ONE alignment (plain loops)
  * ``brute_*``         - complete enumeration of every alignment of two sequences,
                          each scored with ``score_cols`` semantics
  * ``dp_opt``          - a textbook O(nm) dynamic programme used only to cross-check
                          the enumeration
"""

import functools

import numpy as np

NEG = -(10**15)


# ---------------------------------------------------------------------------
# one alignment
# ---------------------------------------------------------------------------
def gap_pair(gap):
    if isinstance(gap, tuple):
        return gap[0], gap[1]
    return gap, gap


def is_affine(gap):
    return isinstance(gap, tuple)


def terminal_range(cols):
    """(start, stop): columns start..stop-1 are NOT terminal gaps.  Terminal gaps lie
    before the column in which the later sequence starts and behind the column in
    which the earlier-ending sequence ends.  A row without any symbol makes every
    column terminal."""
    first = [None, None]
    last = [None, None]
    for k, c in enumerate(cols):
        for r in (0, 1):
            if c[r] != -1:
                if first[r] is None:
                    first[r] = k
                last[r] = k
    if first[0] is None or first[1] is None:
        return 0, 0
    return max(first), min(last) + 1


def score_cols(cols, s1, s2, mat, gap, terminal_penalty=True):
    """Score of one alignment under the documented model."""
    go, ge = gap_pair(gap)
    total = 0
    for i, j in cols:
        if i != -1 and j != -1:
            total += mat[s1[i]][s2[j]]
    if terminal_penalty:
        start, stop = 0, len(cols)
    else:
        start, stop = terminal_range(cols)
    for r in (0, 1):
        in_gap = False
        for k in range(start, stop):
            if cols[k][r] == -1:
                total += ge if in_gap else go
                in_gap = True
            else:
                in_gap = False
    return total


def has_abutting_gaps(cols):
    """A gap in one sequence directly followed by a gap in the other."""
    for a, b in zip(cols, cols[1:]):
        if (a[0] == -1 and b[1] == -1) or (a[1] == -1 and b[0] == -1):
            return True
    return False


def trace_problem(cols, n, m, end_to_end):
    """None if `cols` is a valid alignment of a length-n and a length-m sequence:
    no all-gap column, positions in range, per sequence strictly increasing without
    holes (contiguous, order preserving), and covering both sequences completely when
    `end_to_end`."""
    for r, ln in ((0, n), (1, m)):
        idx = [c[r] for c in cols if c[r] != -1]
        for x in idx:
            if not (0 <= x < ln):
                return "position %d out of range in sequence %d" % (x, r + 1)
        for a, b in zip(idx, idx[1:]):
            if b <= a:
                return "positions of sequence %d not strictly increasing" % (r + 1)
            if b != a + 1:
                return "positions of sequence %d not contiguous" % (r + 1)
        if end_to_end and idx != list(range(ln)):
            return "sequence %d not covered end to end" % (r + 1)
    for c in cols:
        if len(c) != 2:
            return "column width"
        if c[0] == -1 and c[1] == -1:
            return "all-gap column"
        if c[0] < -1 or c[1] < -1:
            return "negative position"
    return None


def completions(cols, n, m):
    """The end-to-end alignments obtained by adding the unaligned prefix and suffix of
    BOTH sequences to a (valid) partial trace as gap columns.  Normally exactly one;
    when both sequences have an unaligned part on the same side both orders are
    returned, and when a sequence does not occur in the trace at all (so that "its ends"
    are not defined by the trace) every split of it into a part in front and a part
    behind is returned."""
    out = []
    idx1 = [c[0] for c in cols if c[0] != -1]
    idx2 = [c[1] for c in cols if c[1] != -1]
    splits1 = [(idx1[0], idx1[-1] + 1)] if idx1 else [(k, k) for k in range(n + 1)]
    splits2 = [(idx2[0], idx2[-1] + 1)] if idx2 else [(k, k) for k in range(m + 1)]
    for a0, a1 in splits1:
        for b0, b1 in splits2:
            pre1 = [(i, -1) for i in range(0, a0)]
            pre2 = [(-1, j) for j in range(0, b0)]
            suf1 = [(i, -1) for i in range(a1, n)]
            suf2 = [(-1, j) for j in range(b1, m)]
            pres = [pre1 + pre2] if not (pre1 and pre2) else [pre1 + pre2, pre2 + pre1]
            sufs = [suf1 + suf2] if not (suf1 and suf2) else [suf1 + suf2, suf2 + suf1]
            for p in pres:
                for s in sufs:
                    c = tuple(p) + tuple(cols) + tuple(s)
                    if c not in out:
                        out.append(c)
    return out


# ---------------------------------------------------------------------------
# complete enumeration
# ---------------------------------------------------------------------------
@functools.lru_cache(maxsize=None)
def templates(n, m):
    """Every global alignment of a length-n with a length-m sequence (Delannoy(n, m)
    many): monotone, no all-gap column."""
    out = []

    def rec(i, j, cols):
        if i == n and j == m:
            out.append(tuple(cols))
            return
        if i < n and j < m:
            rec(i + 1, j + 1, cols + [(i, j)])
        if i < n:
            rec(i + 1, j, cols + [(i, -1)])
        if j < m:
            rec(i, j + 1, cols + [(-1, j)])

    rec(0, 0, [])
    return tuple(out)


def _shift(t, a, c):
    return tuple((i + a if i != -1 else -1, j + c if j != -1 else -1) for i, j in t)


class Space:
    """All candidate alignments of one kind for sequence lengths (n, m), with the
    sequence-independent parts of their score precomputed:
        score(k) = sum over paired (i, j) of S[i, j]  +  gapcost(k)
    where gapcost(k) = score_cols(candidate k) under an all-zero matrix."""

    def __init__(self, n, m, kind):
        self.n, self.m, self.kind = n, m, kind
        if kind == "global":
            tpl = list(templates(n, m))
        elif kind == "local":
            # every alignment of every pair of substrings (those with an empty substring are
            # pure gap runs, never better than the empty alignment, and are left out)
            tpl = [()]
            for a in range(n):
                for p in range(1, n - a + 1):
                    for c in range(m):
                        for q in range(1, m - c + 1):
                            for t in templates(p, q):
                                tpl.append(_shift(t, a, c))
        elif kind == "prefix":
            # alignments of a prefix of one with a prefix of the other sequence, anchored at (0, 0)
            tpl = [()]
            for p in range(1, n + 1):
                for q in range(1, m + 1):
                    tpl.extend(templates(p, q))
        else:
            raise ValueError(kind)
        self.tpl = tpl
        K = len(tpl)
        A = np.zeros((K, max(1, n * m)), dtype=np.int64)
        for k, t in enumerate(tpl):
            for i, j in t:
                if i != -1 and j != -1:
                    A[k, i * m + j] += 1
        self.A = A
        self.pairs = A.sum(axis=1)
        self.abut = np.array([has_abutting_gaps(t) for t in tpl], dtype=bool)
        self._gc = {}

    def gapcost(self, gap, terminal_penalty):
        key = (gap, terminal_penalty)
        g = self._gc.get(key)
        if g is None:
            zero = [[0]]  # all symbols are code 0 and score 0 against each other
            z1 = [0] * self.n
            z2 = [0] * self.m
            g = np.array([score_cols(t, z1, z2, zero, gap, terminal_penalty) for t in self.tpl], dtype=np.int64)
            self._gc[key] = g
        return g

    def scores(self, s1, s2, mat, gap, terminal_penalty, forbid_abut=True):
        """int64 score of every candidate; candidates that the affine model forbids
        (abutting gaps) get NEG unless forbid_abut is False."""
        n, m = self.n, self.m
        S = np.zeros(max(1, n * m), dtype=np.int64)
        for i in range(n):
            row = mat[s1[i]]
            for j in range(m):
                S[i * m + j] = row[s2[j]]
        sc = self.A @ S + self.gapcost(gap, terminal_penalty)
        if is_affine(gap) and forbid_abut:
            sc = np.where(self.abut, NEG, sc)
        return sc


@functools.lru_cache(maxsize=None)
def space(n, m, kind):
    return Space(n, m, kind)


MODES = ("global", "semi", "local")


def brute(s1, s2, mat, gap, mode, forbid_abut=True):
    """(optimum, scores, Space) over ALL alignments of the given mode.
    global: every gap charged; semi: terminal gaps free; local: every alignment of every
    pair of substrings, or the empty alignment (score 0).  forbid_abut=False lifts the
    affine rule that gaps in the two sequences may not abut (used for diagnosis only)."""
    n, m = len(s1), len(s2)
    if mode == "local":
        sp = space(n, m, "local")
        sc = sp.scores(s1, s2, mat, gap, True, forbid_abut)
    elif mode == "global":
        sp = space(n, m, "global")
        sc = sp.scores(s1, s2, mat, gap, True, forbid_abut)
    elif mode == "semi":
        sp = space(n, m, "global")
        sc = sp.scores(s1, s2, mat, gap, False, forbid_abut)
    else:
        raise ValueError(mode)
    return int(sc.max()), sc, sp


def optimal_set(s1, s2, mat, gap, mode):
    opt, sc, sp = brute(s1, s2, mat, gap, mode)
    return opt, [sp.tpl[k] for k in np.nonzero(sc == opt)[0]]


def sw_canonical(t, s1, s2, mat, gap):
    """Local alignments as the Smith-Waterman procedure delivers them: every non-empty
    proper prefix has a positive score (otherwise the alignment would have been restarted
    behind it); with affine penalties the alignment additionally ends with a pair."""
    for k in range(1, len(t)):
        if score_cols(t[:k], s1, s2, mat, gap, True) <= 0:
            return False
    if is_affine(gap) and t and (t[-1][0] == -1 or t[-1][1] == -1):
        return False
    return True


def extension_opt(p1, p2, mat, gap):
    """Best score of an alignment of a prefix of p1 with a prefix of p2 that starts at
    (0, 0) - or of the empty extension (0).  Every gap is charged."""
    sp = space(len(p1), len(p2), "prefix")
    sc = sp.scores(p1, p2, mat, gap, True)
    return int(sc.max())


def extension_need(p1, p2, mat, gap):
    """(optimum O of the anchored extension, smallest drop-off threshold that provably cannot
    bind).  Documented rule: the extension stops where the score "falls more than `threshold`
    below the maximum score found".  A table cell can only be compared with maxima found in
    cells computed before it, i.e. cells that do not depend on it: every cell except its strict
    successors.  So with ceiling(c) = best score of any such cell (never more than O), a path
    whose prefix ending in cell c scores >= ceiling(c) - threshold for all its cells can
    never be cut, whatever the order in which the table is explored; if one OPTIMAL path has
    that property the optimum must be found.
    need = min over optimal paths of max over their cells of (ceiling(c) - prefix score).
    Linear penalties: ceiling from the exact per-cell optima (global optimum of the two
    prefixes).  Affine penalties (three scores per cell): the coarser ceiling O is used."""
    n, m = len(p1), len(p2)
    sp = space(n, m, "prefix")
    sc = sp.scores(p1, p2, mat, gap, True)
    opt = int(sc.max())
    if is_affine(gap):
        ceil = [[opt] * (m + 1) for _ in range(n + 1)]
    else:
        best = [[brute(p1[:i], p2[:j], mat, gap, "global")[0] for j in range(m + 1)] for i in range(n + 1)]
        ceil = [[max(best[a][b] for a in range(n + 1) for b in range(m + 1)
                     if not (a >= i and b >= j) or (a == i and b == j))
                 for j in range(m + 1)] for i in range(n + 1)]
    need = None
    for k in np.nonzero(sc == opt)[0]:
        t = sp.tpl[k]
        worst = 0
        i = j = 0
        for q in range(1, len(t) + 1):
            col = t[q - 1]
            if col[0] != -1:
                i += 1
            if col[1] != -1:
                j += 1
            d = ceil[i][j] - score_cols(t[:q], p1, p2, mat, gap, True)
            if d > worst:
                worst = d
        if need is None or worst < need:
            need = worst
    return opt, need


def seeded_opt_need(s1, s2, mat, gap, seed, direction, cache=None):
    """(best score of an alignment that pairs seed=(i0, j0) and extends only in the requested
    direction(s), smallest threshold that provably cannot bind).  `cache`: dict for the
    per-region results (valid for one matrix)."""
    i0, j0 = seed
    total = mat[s1[i0]][s2[j0]]
    need = 0
    regions = []
    if direction in ("both", "upstream"):
        regions.append((tuple(reversed(s1[:i0])), tuple(reversed(s2[:j0]))))
    if direction in ("both", "downstream"):
        regions.append((tuple(s1[i0 + 1:]), tuple(s2[j0 + 1:])))
    for p1, p2 in regions:
        k = (p1, p2, gap)
        r = cache.get(k) if cache is not None else None
        if r is None:
            r = extension_need(p1, p2, mat, gap)
            if cache is not None:
                cache[k] = r
        total += r[0]
        need = max(need, r[1])
    return total, need


def seeded_opt(s1, s2, mat, gap, seed, direction):
    """Best score of an alignment that pairs seed=(i0, j0) and extends only in the
    requested direction(s)."""
    i0, j0 = seed
    total = mat[s1[i0]][s2[j0]]
    if direction in ("both", "upstream"):
        total += extension_opt(tuple(reversed(s1[:i0])), tuple(reversed(s2[:j0])), mat, gap)
    if direction in ("both", "downstream"):
        total += extension_opt(tuple(s1[i0 + 1:]), tuple(s2[j0 + 1:]), mat, gap)
    return total


def dp_seeded_opt(s1, s2, mat, gap, seed, direction):
    """Seeded optimum by dynamic programming (for sequences too long for enumeration): seed pair
    + best anchored extension of the reversed prefixes (upstream) + of the suffixes (downstream)."""
    i0, j0 = seed
    total = mat[s1[i0]][s2[j0]]
    if direction in ("both", "upstream"):
        total += dp_opt(tuple(reversed(s1[:i0])), tuple(reversed(s2[:j0])), mat, gap, "prefix")
    if direction in ("both", "downstream"):
        total += dp_opt(tuple(s1[i0 + 1:]), tuple(s2[j0 + 1:]), mat, gap, "prefix")
    return total


def diagonal_runs(s1, s2, mat, seed, direction):
    """Ungapped: (best score, maximal drawdown seen when walking each requested arm to its end).
    The drawdown is the largest amount by which the running arm score lies below the best
    arm score seen before; a drop-off threshold >= drawdown can never terminate the walk."""
    i0, j0 = seed
    total = mat[s1[i0]][s2[j0]]
    worst = 0
    arms = []
    if direction in ("both", "upstream"):
        arms.append([(i0 - k, j0 - k) for k in range(1, min(i0, j0) + 1)])
    if direction in ("both", "downstream"):
        arms.append([(i0 + k, j0 + k) for k in range(1, min(len(s1) - i0, len(s2) - j0))])
    for arm in arms:
        run = 0
        best = 0
        for i, j in arm:
            run += mat[s1[i]][s2[j]]
            if run > best:
                best = run
            worst = max(worst, best - run)
        total += best
    return total, worst


# ---------------------------------------------------------------------------
# independent cross-check: textbook dynamic programme
# ---------------------------------------------------------------------------
def dp_opt(s1, s2, mat, gap, mode):
    """Needleman-Wunsch / Smith-Waterman / Gotoh optimum.  Three states: M (last column is a
    pair), X (last column: symbol of s1 against gap), Y (symbol of s2 against gap).  With a
    linear penalty every transition is allowed; with affine penalties X<->Y is not.
    Unreachable states hold values around NEG (-10^15), far below any real score.
    mode "prefix": best alignment of a prefix of s1 with a prefix of s2 that starts at (0, 0),
    every gap charged, or the empty one (0) - the anchored extension of a seeded alignment."""
    n, m = len(s1), len(s2)
    go, ge = gap_pair(gap)
    affine = is_affine(gap)
    free = mode == "semi"
    local = mode == "local"
    prefix = mode == "prefix"
    lim = NEG // 2
    M = [[NEG] * (m + 1) for _ in range(n + 1)]
    X = [[NEG] * (m + 1) for _ in range(n + 1)]
    Y = [[NEG] * (m + 1) for _ in range(n + 1)]
    M[0][0] = 0
    best = 0
    for i in range(n + 1):
        Mi, Xi, Yi = M[i], X[i], Y[i]
        if i > 0:
            Mp, Xp, Yp = M[i - 1], X[i - 1], Y[i - 1]
            row = mat[s1[i - 1]]
        for j in range(m + 1):
            if i == 0 and j == 0:
                continue
            if i > 0 and j > 0:
                prev = Mp[j - 1]
                if Xp[j - 1] > prev:
                    prev = Xp[j - 1]
                if Yp[j - 1] > prev:
                    prev = Yp[j - 1]
                if local and prev < 0:
                    prev = 0
                if prev > lim:
                    Mi[j] = prev + row[s2[j - 1]]
            if i > 0:
                # s1[i-1] against a gap; free when terminal: before s2 starts (j == 0) or after
                # s2 ended (j == m)
                if free and (j == 0 or j == m):
                    o = e = 0
                else:
                    o, e = go, ge
                x = Mp[j] + o
                t = Xp[j] + e
                if t > x:
                    x = t
                if not affine:
                    t = Yp[j] + o
                    if t > x:
                        x = t
                Xi[j] = x
            if j > 0:
                if free and (i == 0 or i == n):
                    o = e = 0
                else:
                    o, e = go, ge
                y = Mi[j - 1] + o
                t = Yi[j - 1] + e
                if t > y:
                    y = t
                if not affine:
                    t = Xi[j - 1] + o
                    if t > y:
                        y = t
                Yi[j] = y
            if local or prefix:
                if Mi[j] > best:
                    best = Mi[j]
                if Xi[j] > best:
                    best = Xi[j]
                if Yi[j] > best:
                    best = Yi[j]
    if local or prefix:
        return best
    return max(M[n][m], X[n][m], Y[n][m])
