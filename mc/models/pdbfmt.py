"""Reference model of the PDB fixed-column text format and of hybrid-36 numbering.

Written from the wwPDB format description (v3.3: ATOM/HETATM, CRYST1, MODEL,
CONECT column tables) and the hybrid-36 specification (cctbx iotbx.pdb.hybrid_36:
"decimal numbers first, then upper-case base-36 numbers starting with a letter,
then the same with lower-case letters").  Pure Python; shares no code with biotite.
"""

import itertools
import math
import re
from decimal import ROUND_HALF_EVEN, Decimal

DIGITS = "0123456789"
UPPER = "ABCDEFGHIJKLMNOPQRSTUVWXYZ"
LOWER = "abcdefghijklmnopqrstuvwxyz"


# ---------------------------------------------------------------------------
# hybrid-36
# ---------------------------------------------------------------------------
def hy36_max(w):
    """Largest number a field of width w can hold: all decimals, then all strings
    <letter><w-1 base-36 digits> in upper case, then the same in lower case."""
    return 10 ** w + 2 * 26 * 36 ** (w - 1) - 1


def hy36_blocks(w):
    """The ordered blocks of the width-w hybrid-36 sequence:
    ('dec', None, first_value, count), ('upper', 'A', ...), ..., ('lower', 'z', ...)."""
    out = [("dec", None, 0, 10 ** w)]
    start = 10 ** w
    per = 36 ** (w - 1)
    for kind, letters in (("upper", UPPER), ("lower", LOWER)):
        for ch in letters:
            out.append((kind, ch, start, per))
            start += per
    return out


def hy36_block_strings(w, kind, first):
    """Odometer: the strings of one block in counting order (decimal block: unpadded)."""
    if kind == "dec":
        return (str(i) for i in range(10 ** w))
    alpha = DIGITS + (UPPER if kind == "upper" else LOWER)
    if w == 1:
        return iter([first])
    return (first + "".join(t) for t in itertools.product(alpha, repeat=w - 1))


def hy36_encode(i, w):
    """Positional definition (used for single values; the sweeps use the odometer)."""
    if i < 0:
        s = str(i)
        if len(s) > w:
            raise ValueError("does not fit")
        return s
    if i < 10 ** w:
        return str(i)
    k = i - 10 ** w
    per = 36 ** (w - 1)
    for letters in (UPPER, LOWER):
        if k < 26 * per:
            alpha = DIGITS + letters
            first, rest = divmod(k, per)
            tail = []
            for _ in range(w - 1):
                rest, r = divmod(rest, 36)
                tail.append(alpha[r])
            return letters[first] + "".join(reversed(tail))
        k -= 26 * per
    raise ValueError("does not fit")


_DEC = re.compile(r"-?[0-9]+\Z")


def hy36_decode(s):
    """Value of a field text; raises ValueError for text that is not a hybrid-36 number."""
    t = s.strip(" ")
    if _DEC.match(t):
        return int(t)
    if not t:
        raise ValueError("empty")
    w = len(t)
    for letters in (UPPER, LOWER):
        if t[0] in letters:
            alpha = DIGITS + letters
            if any(c not in alpha for c in t):
                raise ValueError("mixed")
            v = letters.index(t[0])
            for c in t[1:]:
                v = v * 36 + alpha.index(c)
            base = 10 ** w + (0 if letters is UPPER else 26 * 36 ** (w - 1))
            return base + v
    raise ValueError("not hybrid-36")


# ---------------------------------------------------------------------------
# fixed-point text
# ---------------------------------------------------------------------------
def fixed(v, places):
    """Text of the real number v (a Python float, taken exactly) with `places` decimals,
    round-half-even on the exact binary value - what a Fortran/C F-format prints.
    None for NaN / infinities."""
    if v != v or v in (float("inf"), float("-inf")):
        return None
    q = Decimal(v).quantize(Decimal(1).scaleb(-places), rounding=ROUND_HALF_EVEN)
    s = format(q, "f")
    return s


def int_part_width(v):
    """Characters needed for sign + integer digits of the *unrounded* value."""
    a = abs(v)
    return len(str(int(a))) + (1 if v < 0 else 0)


# ---------------------------------------------------------------------------
# column tables (0-based half-open slices of the 80-column record)
# ---------------------------------------------------------------------------
ATOM_COLS = {
    "record": (0, 6),
    "serial": (6, 11),
    "name": (12, 16),
    "altloc": (16, 17),
    "res_name": (17, 20),
    "chain": (21, 22),
    "res_seq": (22, 26),
    "icode": (26, 27),
    "x": (30, 38),
    "y": (38, 46),
    "z": (46, 54),
    "occupancy": (54, 60),
    "b_factor": (60, 66),
    "element": (76, 78),
    "charge": (78, 80),
}
ATOM_BLANK = [(11, 12), (20, 21), (27, 30), (66, 76)]
CRYST1_COLS = {"a": (6, 15), "b": (15, 24), "c": (24, 33), "alpha": (33, 40), "beta": (40, 47), "gamma": (47, 54)}

_REAL3 = re.compile(r" *-?[0-9]+\.[0-9]{3}\Z")
_REAL2 = re.compile(r" *-?[0-9]+\.[0-9]{2}\Z")
_INT = re.compile(r" *-?[0-9]+\Z")
_CHARGE = re.compile(r"[0-9][+-]\Z")


class Layout(Exception):
    def __init__(self, field, msg):
        super().__init__("%s: %s" % (field, msg))
        self.field = field


def split_atom_line(line):
    """Cut one ATOM/HETATM record at the standard columns.  Raises Layout when the record
    is not 80 columns wide, a column the format leaves blank is occupied, or a numeric field
    does not have the prescribed shape."""
    if len(line) != 80:
        raise Layout("record", "length %d instead of 80" % len(line))
    f = {k: line[a:b] for k, (a, b) in ATOM_COLS.items()}
    if f["record"] not in ("ATOM  ", "HETATM"):
        raise Layout("record", "record name %r" % f["record"])
    for a, b in ATOM_BLANK:
        if line[a:b].strip(" "):
            raise Layout("blank", "columns %d-%d hold %r" % (a + 1, b, line[a:b]))
    for k in ("x", "y", "z"):
        if not _REAL3.match(f[k]):
            raise Layout(k, "not a right-justified F8.3 number: %r" % f[k])
    for k in ("occupancy", "b_factor"):
        if not _REAL2.match(f[k]):
            raise Layout(k, "not a right-justified F6.2 number: %r" % f[k])
    if f["charge"] != "  " and not _CHARGE.match(f["charge"]):
        raise Layout("charge", "not blank or <digit><sign>: %r" % f["charge"])
    if f["altloc"] != " ":
        raise Layout("altloc", "occupied although the structure has no alternate locations: %r" % f["altloc"])
    for k in ("name", "res_name", "chain", "icode", "element", "serial", "res_seq"):
        t = f[k].strip(" ")
        if " " in t:
            raise Layout(k, "blank inside field text %r" % f[k])
    return f


def name_start_column(name, element):
    """Where the PDB alignment convention puts an atom name inside columns 13-16:
    the element symbol is right-justified in columns 13-14.  Returns 12 or 13 (0-based) when
    the convention decides, None when it does not (name does not begin with the symbol)."""
    if len(name) >= 4:
        return 12
    if not element or not name.upper().startswith(element.upper()):
        return None
    return 13 if len(element) == 1 else 12


def split_conect_line(line):
    """Serial-number texts of a CONECT record (centre, partners)."""
    t = line.rstrip(" \n")
    if not t.startswith("CONECT"):
        raise Layout("CONECT", "not a CONECT record")
    if len(t) > 31:
        raise Layout("CONECT", "text beyond column 31 (more than 4 bonded atoms): %r" % t)
    body = t[6:]
    if not body or len(body) % 5:
        raise Layout("CONECT", "serial fields are not 5 columns wide: %r" % t)
    parts = [body[i:i + 5] for i in range(0, len(body), 5)]
    if len(parts) < 2:
        raise Layout("CONECT", "no bonded atom: %r" % t)
    return parts[0], parts[1:]


# ---------------------------------------------------------------------------
# unit cell
# ---------------------------------------------------------------------------
def cell_from_vectors(box):
    """(a, b, c, alpha, beta, gamma) in Angstrom / degrees of three row vectors."""
    v = [[float(x) for x in row] for row in box]

    def norm(a):
        return math.sqrt(sum(x * x for x in a))

    def ang(a, b):
        c = sum(x * y for x, y in zip(a, b)) / (norm(a) * norm(b))
        return math.degrees(math.acos(max(-1.0, min(1.0, c))))

    return (norm(v[0]), norm(v[1]), norm(v[2]), ang(v[1], v[2]), ang(v[0], v[2]), ang(v[0], v[1]))


def vectors_from_cell(a, b, c, alpha, beta, gamma):
    """Textbook lower-triangular cell vectors (a along x, b in the xy plane)."""
    ca, cb, cg = (math.cos(math.radians(x)) for x in (alpha, beta, gamma))
    sg = math.sin(math.radians(gamma))
    cx = c * cb
    cy = c * (ca - cb * cg) / sg
    cz = math.sqrt(max(0.0, c * c - cx * cx - cy * cy))
    return [[a, 0.0, 0.0], [b * cg, b * sg, 0.0], [cx, cy, cz]]


def rotate_rows(box, axis, deg):
    """Rigid rotation of row vectors (keeps the cell parameters)."""
    c, s = math.cos(math.radians(deg)), math.sin(math.radians(deg))
    i, j = [(1, 2), (0, 2), (0, 1)][axis]
    out = []
    for row in box:
        r = list(row)
        r[i], r[j] = c * row[i] - s * row[j], s * row[i] + c * row[j]
        out.append(r)
    return out
