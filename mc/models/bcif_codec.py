"""Reference model of the BinaryCIF data encodings, written from the format
description (BinaryCIF encoding.md) and the class docstrings, with Python
integers / fractions only.  It answers one question per stage of a chain:
*can the target representation of this stage hold these values?*  The round
trip law itself (decode(encode(x)) == x) needs no model.

Encoding specs are JSON-able:  [kind, params]
  ["B", {"type": tc|None}]                               ByteArray
  ["D", {"src_type": tc|None, "origin": int|None}]       Delta
  ["R", {"src_type": tc|None, "src_size": int|None}]     RunLength
  ["P", {"byte_count": 1|2, "is_unsigned": bool|None, "src_size": int|None}]   IntegerPacking
  ["F", {"factor": number, "src_type": 32|33|None}]      FixedPoint
  ["Q", {"min":, "max":, "num_steps":, "src_type":}]     IntervalQuantization
Type codes: 1 int8, 2 int16, 3 int32, 4 uint8, 5 uint16, 6 uint32, 32 float32, 33 float64.
"""

import math
from fractions import Fraction

I32_LO, I32_HI = -(2**31), 2**31 - 1
RANGES = {
    1: (-128, 127),
    2: (-32768, 32767),
    3: (I32_LO, I32_HI),
    4: (0, 255),
    5: (0, 65535),
    6: (0, 2**32 - 1),
}
# the closest type the format offers for a numpy integer dtype (64 bit is not part of the format)
DTYPE_TC = {"int8": 1, "int16": 2, "int32": 3, "int64": 3, "uint8": 4, "uint16": 5, "uint32": 6, "uint64": 6,
            "float32": 32, "float64": 33}
DTYPE_RANGE = {
    "int8": (-128, 127), "int16": (-32768, 32767), "int32": (I32_LO, I32_HI), "int64": (-(2**63), 2**63 - 1),
    "uint8": (0, 255), "uint16": (0, 65535), "uint32": (0, 2**32 - 1), "uint64": (0, 2**64 - 1),
}
TC_NAME = {1: "int8", 2: "int16", 3: "int32", 4: "uint8", 5: "uint16", 6: "uint32", 32: "float32", 33: "float64"}

PACK_CAP = 3000  # packed elements per case; larger cases are run in the dedicated 'ipbig' group only


def fits(vals, tc):
    lo, hi = RANGES[tc]
    for v in vals:
        if v < lo or v > hi:
            return False
    return True


def pack_len(v, lo, hi):
    if v >= 0:
        return v // hi + 1
    return (-v) // (-lo) + 1


def pack(v, lo, hi, out):
    """IntegerPacking of one value: the limit value is repeated while the remainder
    still reaches it, then the remainder (possibly 0) follows."""
    if v >= 0:
        while v >= hi:
            out.append(hi)
            v -= hi
    else:
        while v <= lo:
            out.append(lo)
            v -= lo
    out.append(v)


class Verdict:
    """cls: 'accept' (must round-trip exactly), 'refuse_or_exact' (a stage cannot hold a value:
    clean exception or exact survival), 'either' (statement silent: same two outcomes, counted apart),
    'skip' (packed size above PACK_CAP)."""

    __slots__ = ("cls", "stage", "reason", "packed_limit", "ba_vs_packed", "inputs", "pp")

    def __init__(self):
        self.cls = "accept"
        self.stage = None
        self.reason = None
        self.packed_limit = False  # some packed element equals a limit value (multi-element value)
        self.ba_vs_packed = None  # relation of an explicit ByteArray type to the packed type before it
        self.pp = False  # a packing stage directly follows a packing stage that emitted a limit value
        self.inputs = []  # per stage: (ideal input values, numpy dtype name of the array that carries them)

    def problem(self, stage, reason):
        if self.cls in ("accept", "either"):
            self.cls, self.stage, self.reason = "refuse_or_exact", stage, reason

    def either(self, stage, reason):
        if self.cls == "accept":
            self.cls, self.stage, self.reason = "either", stage, reason


def int_chain(vals, tc, chain, allow_big=False, np_range=None, np_name=None):
    """vals: list of Python ints as they enter the chain; tc: type code of the incoming array
    (DTYPE_TC of its dtype: 64-bit arrays enter as their 32-bit counterpart);
    chain: list of specs ending with a ByteArray."""
    v = Verdict()
    cur = vals
    last_kind = None
    if np_range is None:
        np_range = RANGES[tc]
    if np_name is None:
        np_name = TC_NAME[tc]
    for idx, (kind, p) in enumerate(chain):
        v.inputs.append((cur, np_name))
        if kind == "B":
            t = p.get("type") or tc
            if t in (32, 33):
                v.either("ByteArray", "int_into_float_type")
                tc = t
                continue
            if not fits(cur, t):
                v.problem("ByteArray", "value_exceeds_type")
            if last_kind == "P" and p.get("type") and p["type"] != tc:
                w_t = RANGES[t][1] - RANGES[t][0]
                w_p = RANGES[tc][1] - RANGES[tc][0]
                v.ba_vs_packed = "wider" if w_t > w_p else ("narrower" if w_t < w_p else "other_sign")
            tc = t
        elif kind == "D":
            if not cur and p.get("origin") is None:
                v.either("Delta", "empty")
            src = p.get("src_type") or tc
            if not fits(cur, src):
                v.problem("Delta", "input_exceeds_src_type")
            elif src != tc:
                # documented meaning of src_type: the type of the array that is encoded
                v.either("Delta", "src_type_differs_from_array_type")
            origin = p["origin"] if p.get("origin") is not None else (cur[0] if cur else 0)
            if not (I32_LO <= origin <= I32_HI):
                v.problem("Delta", "origin_exceeds_int32")
            elif not (np_range[0] <= origin <= np_range[1]):
                v.either("Delta", "origin_outside_array_type_range")
            out = []
            prev = origin
            for x in cur:
                out.append(x - prev)
                prev = x
            if not fits(out, 3):
                v.problem("Delta", "difference_exceeds_int32")
            elif any(not (np_range[0] <= d <= np_range[1]) for d in out) or any(
                    not (np_range[0] <= x - origin <= np_range[1]) for x in cur):
                # the statement does not say in which width x - origin is formed; wrapped and ideal
                # differences decode alike but look different to the stages that follow
                if idx + 1 < len(chain) and not (len(chain) == idx + 2 and chain[-1][1].get("type") in (None, 3)):
                    v.either("Delta", "difference_exceeds_array_type_range")
            cur, tc, np_range, np_name = out, 3, RANGES[3], "int32"
        elif kind == "R":
            if not cur:
                v.either("RunLength", "empty")
            src = p.get("src_type") or tc
            if p.get("src_size") is not None and p["src_size"] != len(cur):
                v.problem("RunLength", "src_size_mismatch")
            if not fits(cur, src):
                v.problem("RunLength", "input_exceeds_src_type")
            elif not fits(cur, 3):
                v.problem("RunLength", "value_exceeds_int32")
            out = []
            for x in cur:
                if out and out[-2] == x:
                    out[-1] += 1
                else:
                    out.append(x)
                    out.append(1)
            cur, tc, np_range, np_name = out, 3, RANGES[3], "int32"
        elif kind == "P":
            if last_kind == "P" and v.packed_limit:
                v.pp = True
            if not cur and p.get("is_unsigned") is None:
                v.either("IntegerPacking", "empty")
            if p.get("src_size") is not None and p["src_size"] != len(cur):
                v.problem("IntegerPacking", "src_size_mismatch")
            if not fits(cur, 3):
                v.problem("IntegerPacking", "input_exceeds_int32")
                # the ideal packed form is of no interest any more; only the cost of running the
                # case is: an implementation that wraps to 32 bit may end up packing a huge value
                wrapped = [((x + 2**31) % 2**32) - 2**31 for x in cur]
                n = sum(pack_len(x, -128 if p["byte_count"] == 1 else -32768,
                                 127 if p["byte_count"] == 1 else 32767) for x in wrapped)
                if n > PACK_CAP and not allow_big:
                    v.cls, v.reason = "skip", "packed_size_above_cap"
                return v
            uns = p.get("is_unsigned")
            if uns is None:
                uns = (min(cur) >= 0) if cur else True
            elif uns and cur and min(cur) < 0:
                v.problem("IntegerPacking", "negative_into_unsigned")
                return v
            bc = p["byte_count"]
            ptc = {(1, True): 4, (2, True): 5, (1, False): 1, (2, False): 2}[(bc, bool(uns))]
            lo, hi = RANGES[ptc]
            n = 0
            for x in cur:
                n += pack_len(x, lo if lo else -1, hi)
            if n > PACK_CAP and not allow_big:
                v.cls, v.stage, v.reason = "skip", "IntegerPacking", "packed_size_above_cap"
                return v
            if n > PACK_CAP:
                # big single-stage case (followed by ByteArray(auto) only): every packed value fits
                # the packed type by construction, nothing downstream depends on the values
                cur = []
                v.packed_limit = True
            else:
                out = []
                for x in cur:
                    pack(x, lo if lo else -1, hi, out)
                if len(out) > len(cur):
                    v.packed_limit = True
                cur = out
            tc = ptc
            np_range = RANGES[ptc]
            np_name = TC_NAME[ptc]
        else:
            raise ValueError(kind)
        last_kind = kind
    return v


# ---------------------------------------------------------------------------
# floats
# ---------------------------------------------------------------------------
def ulp(x, tc):
    """Unit in the last place of |x| in float32 (tc 32) or float64 (tc 33)."""
    x = abs(x)
    if x != x or x == math.inf:
        return 0.0
    if tc == 33:
        return math.ulp(x)
    if x < 2.0**-126:
        return 2.0**-149
    return math.ulp(x) * 2.0**29


_FP_CACHE = {}


def fixed_point_element(x, factor, data_tc):
    """Classify one element for FixedPoint(factor) -> int32.
    Returns (cls, ideal_int, tie) with cls in nan|inf|overflow|border|ok."""
    key = (x, factor, data_tc) if x == x else ("nan", factor, data_tc)
    r = _FP_CACHE.get(key)
    if r is not None:
        return r
    if x != x:
        r = ("nan", 0, False)
    elif x in (math.inf, -math.inf):
        r = ("inf", 0, False)
    else:
        p = Fraction(x) * Fraction(factor)
        rel = Fraction(1, 10**6) if data_tc == 32 else Fraction(1, 10**12)
        margin = abs(p) * rel + Fraction(1, 10**9)
        half = Fraction(1, 2)
        if p > I32_HI + half + margin or p < I32_LO - half - margin:
            cls = "overflow"
        elif p > I32_HI + half - margin or p < I32_LO - half + margin:
            cls = "border"
        else:
            cls = "ok"
        fl = math.floor(p)
        frac = p - fl
        tie = abs(frac - half) <= margin
        if frac > half or (frac == half and fl % 2 == 1):
            q = fl + 1
        else:
            q = fl
        r = (cls, q, tie)
    _FP_CACHE[key] = r
    return r
