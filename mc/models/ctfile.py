"""Strict, deliberately naive reader for MDL CTfile texts (molfile V2000 fixed
columns, V3000 blocks, SD file framing and data items).

Written from the BIOVIA "CTfile formats" description, not from biotite: it is
the independent oracle of C18 for *what is in the file* (biotite's own reader
is lenient - it splits `M  CHG` lines on blanks, ignores field widths - so a
round trip alone cannot see a shifted column).

Layout (V2000):
  counts line   aaabbblllfffcccsssxxxrrrpppiiimmmvvvvvv          (39 columns)
  atom line     xxxxx.xxxxyyyyy.yyyyzzzzz.zzzz aaaddcccssshhhbbbvvvHHHrrriiimmmnnneee   (69)
  bond line     111222tttsssxxxrrrccc                             (21)
  charge line   M  CHGnn8 aaa vvv ...      nn8 in 1..8, each entry 2 x 4 columns
  end           M  END
Charge codes of the atom block: 0 none, 1 +3, 2 +2, 3 +1, 4 doublet radical,
5 -1, 6 -2, 7 -3.  If any `M  CHG` line is present the atom block codes are
superseded (all atoms not mentioned are uncharged).
"""

import re

CHARGE_CODE = {0: 0, 1: 3, 2: 2, 3: 1, 4: 0, 5: -1, 6: -2, 7: -3}
CODE_OF_CHARGE = {3: 1, 2: 2, 1: 3, -1: 5, -2: 6, -3: 7}
# bond type vocabulary of the format (V2000: 1-8, V3000 adds 9, 10)
BOND_MEANING = {
    1: "single", 2: "double", 3: "triple", 4: "aromatic", 5: "single_or_double",
    6: "single_or_aromatic", 7: "double_or_aromatic", 8: "any", 9: "coordination", 10: "hydrogen",
}

_INT = re.compile(r"^ *-?\d+$")
_REAL4 = re.compile(r"^ *-?\d+\.\d{4}$")
_REAL_FREE = re.compile(r"^-?\d+(\.\d+)?$")


class LayoutError(Exception):
    """The text does not follow the fixed layout; .where names the part."""

    def __init__(self, where, msg):
        super().__init__("%s: %s" % (where, msg))
        self.where = where
        self.msg = msg


def _int(field, where):
    if not _INT.match(field):
        raise LayoutError(where, "not a right-justified integer field: %r" % field)
    return int(field)


def version_of(counts_line):
    return counts_line[33:39].strip() if len(counts_line) >= 39 else ""


def parse_v2000(lines):
    """lines: counts line ... 'M  END'.  Returns dict(n_atoms, n_bonds,
    atoms=[(xtext, ytext, ztext, symbol, charge_code)], bonds=[(a, b, code)] (1-based atoms),
    chg=[(atom, value)], charges=[final charge per atom])."""
    if not lines:
        raise LayoutError("counts", "no lines")
    c = lines[0]
    if len(c) != 39:
        raise LayoutError("counts", "counts line has %d columns, expected 39: %r" % (len(c), c))
    if c[33:39] != " V2000":
        raise LayoutError("counts", "version field %r" % c[33:39])
    na = _int(c[0:3], "counts")
    nb = _int(c[3:6], "counts")
    if na < 0 or nb < 0:
        raise LayoutError("counts", "negative count")
    for k in range(6, 33, 3):
        f = c[k:k + 3]
        if f.strip() and not _INT.match(f):
            raise LayoutError("counts", "field at column %d: %r" % (k, f))
    if len(lines) < 1 + na + nb + 1:
        raise LayoutError("counts", "counts %d/%d but only %d lines" % (na, nb, len(lines)))
    atoms = []
    for i in range(na):
        ln = lines[1 + i]
        w = "atom"
        if len(ln) != 69:
            raise LayoutError(w, "atom line %d has %d columns, expected 69: %r" % (i + 1, len(ln), ln))
        for k in (0, 10, 20):
            if not _REAL4.match(ln[k:k + 10]):
                raise LayoutError(w, "coordinate field at column %d of atom %d: %r" % (k, i + 1, ln[k:k + 10]))
        if ln[30] != " ":
            raise LayoutError(w, "column 31 of atom %d not blank: %r" % (i + 1, ln))
        sym = ln[31:34]
        if sym != sym.strip().ljust(3):
            raise LayoutError(w, "symbol of atom %d not left-justified: %r" % (i + 1, sym))
        _int(ln[34:36], w)
        code = _int(ln[36:39], w)
        if code not in CHARGE_CODE:
            raise LayoutError(w, "charge code %d of atom %d" % (code, i + 1))
        for k in range(39, 69, 3):
            _int(ln[k:k + 3], w)
        atoms.append((ln[0:10].strip(), ln[10:20].strip(), ln[20:30].strip(), sym.strip(), code))
    bonds = []
    for i in range(nb):
        ln = lines[1 + na + i]
        w = "bond"
        if len(ln) != 21:
            raise LayoutError(w, "bond line %d has %d columns, expected 21: %r" % (i + 1, len(ln), ln))
        f = [_int(ln[k:k + 3], w) for k in range(0, 21, 3)]
        if not (1 <= f[0] <= na and 1 <= f[1] <= na) or f[0] == f[1]:
            raise LayoutError(w, "bond %d joins atoms %d, %d of %d" % (i + 1, f[0], f[1], na))
        if f[2] not in range(1, 9):
            raise LayoutError(w, "bond type %d" % f[2])
        bonds.append((f[0], f[1], f[2]))
    chg = []
    rest = lines[1 + na + nb:]
    if not rest or rest[-1] != "M  END":
        raise LayoutError("end", "last line is %r, expected 'M  END'" % (rest[-1] if rest else None))
    for ln in rest[:-1]:
        w = "chg"
        if not ln.startswith("M  CHG"):
            raise LayoutError("properties", "unexpected line in properties block: %r" % ln)
        if len(ln) < 9:
            raise LayoutError(w, "short line %r" % ln)
        cnt = _int(ln[6:9], w)
        if not 1 <= cnt <= 8:
            raise LayoutError(w, "entry count %d outside 1..8: %r" % (cnt, ln))
        if len(ln) != 9 + 8 * cnt:
            raise LayoutError(w, "%d entries need %d columns, line has %d: %r" % (cnt, 9 + 8 * cnt, len(ln), ln))
        for k in range(cnt):
            fa, fv = ln[9 + 8 * k:13 + 8 * k], ln[13 + 8 * k:17 + 8 * k]
            if fa[0] != " " or fv[0] != " ":
                raise LayoutError(w, "entry %d not blank-separated: %r" % (k + 1, ln))
            a, v = _int(fa[1:], w), _int(fv[1:], w)
            if not 1 <= a <= na:
                raise LayoutError(w, "charge on atom %d of %d" % (a, na))
            chg.append((a, v))
    if chg:
        charges = [0] * na
        for a, v in chg:
            charges[a - 1] = v
    else:
        charges = [CHARGE_CODE[a[4]] for a in atoms]
    return {"version": "V2000", "n_atoms": na, "n_bonds": nb, "atoms": atoms, "bonds": bonds, "chg": chg,
            "charges": charges}


def _tokens_v30(s, where):
    """Blank-separated values; a value containing blanks (or empty) is in double quotes, '""' is a quote."""
    out, i, n = [], 0, len(s)
    while i < n:
        if s[i] == " ":
            i += 1
            continue
        if s[i] == '"':
            j, buf = i + 1, []
            while True:
                if j >= n:
                    raise LayoutError(where, "unterminated quote: %r" % s)
                if s[j] == '"':
                    if j + 1 < n and s[j + 1] == '"':
                        buf.append('"')
                        j += 2
                        continue
                    break
                buf.append(s[j])
                j += 1
            out.append("".join(buf))
            i = j + 1
        else:
            j = i
            while j < n and s[j] != " ":
                j += 1
            out.append(s[i:j])
            i = j
    return out


def parse_v3000(lines):
    """Same result shape as parse_v2000 (atoms carry the V3000 index: (idx, xtext, ytext, ztext, symbol, chg))."""
    if not lines:
        raise LayoutError("counts", "no lines")
    c = lines[0]
    if len(c) != 39 or c[33:39] != " V3000":
        raise LayoutError("counts", "V3000 needs a 39-column compatibility counts line ending in ' V3000': %r" % c)
    if lines[-1] != "M  END":
        raise LayoutError("end", "last line is %r, expected 'M  END'" % lines[-1])
    body = []
    for ln in lines[1:-1]:
        if not ln.startswith("M  V30 "):
            raise LayoutError("v30", "line without 'M  V30 ' prefix: %r" % ln)
        body.append(ln[7:])
    pos = 0

    def expect(text):
        nonlocal pos
        if pos >= len(body) or body[pos].strip() != text:
            raise LayoutError("v30", "expected %r at V30 line %d, got %r" % (text, pos, body[pos] if pos < len(body) else None))
        pos += 1

    expect("BEGIN CTAB")
    if pos >= len(body):
        raise LayoutError("counts", "missing COUNTS")
    t = body[pos].split()
    if len(t) < 6 or t[0] != "COUNTS" or not all(re.match(r"^\d+$", x) for x in t[1:6]):
        raise LayoutError("counts", "bad COUNTS line %r" % body[pos])
    na, nb = int(t[1]), int(t[2])
    pos += 1
    atoms, index = [], {}
    if na or (pos < len(body) and body[pos].strip() == "BEGIN ATOM"):
        expect("BEGIN ATOM")
        while pos < len(body) and body[pos].strip() != "END ATOM":
            tk = _tokens_v30(body[pos], "atom")
            if len(tk) < 6:
                raise LayoutError("atom", "atom line needs index type x y z aamap: %r" % body[pos])
            if not re.match(r"^\d+$", tk[0]) or int(tk[0]) < 1:
                raise LayoutError("atom", "atom index %r" % tk[0])
            idx = int(tk[0])
            if idx in index:
                raise LayoutError("atom", "duplicate atom index %d" % idx)
            for x in tk[2:5]:
                if not _REAL_FREE.match(x):
                    raise LayoutError("atom", "coordinate %r in %r" % (x, body[pos]))
            if not re.match(r"^\d+$", tk[5]):
                raise LayoutError("atom", "aamap %r" % tk[5])
            chg = 0
            for p in tk[6:]:
                m = re.match(r"^([A-Z]+)=(.+)$", p)
                if not m:
                    raise LayoutError("atom", "property %r in %r" % (p, body[pos]))
                if m.group(1) == "CHG":
                    if not re.match(r"^-?\d+$", m.group(2)):
                        raise LayoutError("atom", "CHG value %r" % m.group(2))
                    chg = int(m.group(2))
            index[idx] = len(atoms)
            atoms.append((idx, tk[2], tk[3], tk[4], tk[1], chg))
            pos += 1
        expect("END ATOM")
    bonds = []
    if nb or (pos < len(body) and body[pos].strip() == "BEGIN BOND"):
        expect("BEGIN BOND")
        seen = set()
        while pos < len(body) and body[pos].strip() != "END BOND":
            tk = body[pos].split()
            if len(tk) < 4 or not all(re.match(r"^\d+$", x) for x in tk[:4]):
                raise LayoutError("bond", "bond line needs index type atom1 atom2: %r" % body[pos])
            bi, ty, a, b = (int(x) for x in tk[:4])
            if bi in seen or bi < 1:
                raise LayoutError("bond", "bond index %d" % bi)
            seen.add(bi)
            if a not in index or b not in index or a == b:
                raise LayoutError("bond", "bond %d joins atoms %d, %d" % (bi, a, b))
            if ty not in range(1, 11):
                raise LayoutError("bond", "bond type %d" % ty)
            bonds.append((index[a] + 1, index[b] + 1, ty))
            pos += 1
        expect("END BOND")
    expect("END CTAB")
    if pos != len(body):
        raise LayoutError("v30", "text after END CTAB: %r" % body[pos])
    if len(atoms) != na or len(bonds) != nb:
        raise LayoutError("counts", "COUNTS %d %d but %d atom and %d bond lines" % (na, nb, len(atoms), len(bonds)))
    return {"version": "V3000", "n_atoms": na, "n_bonds": nb,
            "atoms": [(a[1], a[2], a[3], a[4], None) for a in atoms], "bonds": bonds, "chg": [],
            "charges": [a[5] for a in atoms]}


def parse_ctab(lines):
    v = version_of(lines[0]) if lines else ""
    if v == "V2000":
        return parse_v2000(lines)
    if v == "V3000":
        return parse_v3000(lines)
    raise LayoutError("counts", "no version in counts line %r" % (lines[0] if lines else None))


# --------------------------------------------------------------------------
# header block (3 lines)
#   line 1: molecule name (<= 80)
#   line 2: IIPPPPPPPPMMDDYYHHmmddSSssssssssssEEEEEEEEEEEERRRRRR
#   line 3: comments
# --------------------------------------------------------------------------
HEADER_COLUMNS = {"initials": (0, 2), "program": (2, 10), "time": (10, 20), "dimensions": (20, 22),
                  "scaling_factors": (22, 34), "energy": (34, 46), "registry_number": (46, 52)}


def parse_header(lines3):
    if len(lines3) != 3:
        raise LayoutError("header", "header block needs 3 lines")
    l2 = lines3[1]
    if len(l2) > 80 or len(lines3[0]) > 80 or len(lines3[2]) > 80:
        raise LayoutError("header", "header line longer than 80 columns")
    out = {"mol_name": lines3[0], "comments": lines3[2]}
    for k, (a, b) in HEADER_COLUMNS.items():
        out[k] = l2[a:b].strip()
    if len(l2.rstrip()) > 52:
        raise LayoutError("header", "text beyond column 52 of header line 2: %r" % l2)
    return out


# --------------------------------------------------------------------------
# SD file:  (molfile  data-items  $$$$)*
#   data header:  > [DTn] [<name>] [regno] [(external)]
#   data lines, terminated by one blank line
# --------------------------------------------------------------------------
def parse_sdf(text):
    """Returns a list of records: dict(header=[3 lines], ctab=[lines], data=[(header_line, [value lines])])."""
    if text and not text.endswith("\n"):
        raise LayoutError("sdf", "file does not end with a newline")
    lines = text.split("\n")[:-1] if text else []
    recs, cur = [], []
    for ln in lines:
        if ln == "$$$$":
            recs.append(cur)
            cur = []
        else:
            cur.append(ln)
    if cur:
        raise LayoutError("sdf", "text after the last '$$$$': %r" % cur[:2])
    out = []
    for r in recs:
        if len(r) < 4:
            raise LayoutError("sdf", "record with %d lines" % len(r))
        try:
            end = r.index("M  END", 3)
        except ValueError:
            raise LayoutError("sdf", "record without 'M  END'")
        data, i = [], end + 1
        while i < len(r):
            if not r[i].startswith(">"):
                raise LayoutError("data", "expected a data header, got %r" % r[i])
            head = r[i]
            i += 1
            vals = []
            while i < len(r) and r[i] != "":
                vals.append(r[i])
                i += 1
            if i >= len(r):
                raise LayoutError("data", "data item %r not terminated by a blank line" % head)
            i += 1
            data.append((head, vals))
        out.append({"header": r[:3], "ctab": r[3:end + 1], "data": data})
    return out


def parse_data_header(line):
    """'> DT12 <name> 7 (ext)'  ->  dict(number, name, registry_internal, registry_external) (None if absent)."""
    if not line.startswith(">"):
        raise LayoutError("data", "data header %r" % line)
    out = {"number": None, "name": None, "registry_internal": None, "registry_external": None}
    for tok in line[1:].split():
        if re.match(r"^DT\d+$", tok):
            k, v = "number", int(tok[2:])
        elif tok.startswith("<") and tok.endswith(">") and len(tok) >= 2:
            k, v = "name", tok[1:-1]
        elif re.match(r"^\d+$", tok):
            k, v = "registry_internal", int(tok)
        elif tok.startswith("(") and tok.endswith(")") and len(tok) >= 2:
            k, v = "registry_external", tok[1:-1]
        else:
            raise LayoutError("data", "unknown part %r in data header %r" % (tok, line))
        if out[k] is not None:
            raise LayoutError("data", "part %s twice in data header %r" % (k, line))
        out[k] = v
    return out
