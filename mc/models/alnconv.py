"""Reference model for alignment traces and their conversions (C11).

Written from the property statement, the docstrings of ``biotite.sequence.align``
(``Alignment``, ``get_codes``, ``get_symbols``, ``find_terminal_gaps``,
``get_sequence_identity``, ``score``, ``write_alignment_to_cigar``,
``read_alignment_from_cigar``, ``align_multiple`` *Notes*) and the SAM
specification of CIGAR strings.  Nothing here imports biotite.

Vocabulary
    trace      tuple of columns; a column is a tuple with one entry per row:
               the index into that row's sequence, or -1 for a gap
    sequences  tuple of strings (one letter = one symbol)
    ranges     per row (start, stop): the part of the sequence a contiguous trace covers
"""

import itertools
import re
from fractions import Fraction

GAP = -1


# ---------------------------------------------------------------------------
# enumeration of traces
# ---------------------------------------------------------------------------
def enum_traces(ranges):
    """Every trace that covers, per row, exactly the indices start..stop-1 in order:
    each column advances a non-empty subset of the rows (so no column is all gaps,
    and an insertion may stand next to a deletion in either order)."""
    n = len(ranges)
    stops = tuple(r[1] for r in ranges)

    def rec(pos):
        live = [r for r in range(n) if pos[r] < stops[r]]
        if not live:
            yield ()
            return
        for k in range(len(live), 0, -1):
            for sub in itertools.combinations(live, k):
                col = tuple(pos[r] if r in sub else GAP for r in range(n))
                nxt = tuple(pos[r] + 1 if r in sub else pos[r] for r in range(n))
                for rest in rec(nxt):
                    yield (col,) + rest

    return rec(tuple(r[0] for r in ranges))


def subranges(length, allow_empty=False):
    """Every (start, stop) with 0 <= start < stop <= length; the empty range is
    represented once as (0, 0)."""
    out = [(a, b) for a in range(length) for b in range(a + 1, length + 1)]
    if allow_empty:
        out.append((0, 0))
    return out


def count_traces(lens):
    """Number of traces enum_traces yields for rows of the given covered lengths
    (closed recursion; used to cross-check the enumeration)."""
    memo = {}

    def f(rem):
        if not any(rem):
            return 1
        if rem in memo:
            return memo[rem]
        live = [i for i, r in enumerate(rem) if r]
        t = 0
        for k in range(1, len(live) + 1):
            for sub in itertools.combinations(live, k):
                t += f(tuple(r - (i in sub) for i, r in enumerate(rem)))
        memo[rem] = t
        return t

    return f(tuple(lens))


# ---------------------------------------------------------------------------
# the validity predicate of the property statement
# ---------------------------------------------------------------------------
def trace_problem(trace, nrows, seq_lens=None):
    """None if valid, else a short class name of what is wrong."""
    last = [-1] * nrows
    for col in trace:
        if len(col) != nrows:
            return "ragged_column"
        if all(v == GAP for v in col):
            return "all_gap_column"
        for r, v in enumerate(col):
            if v == GAP:
                continue
            if v < 0:
                return "negative_index"
            if v <= last[r]:
                return "not_strictly_increasing"
            if seq_lens is not None and v >= seq_lens[r]:
                return "index_beyond_sequence"
            last[r] = v
    return None


# ---------------------------------------------------------------------------
# plain views
# ---------------------------------------------------------------------------
def gapped_strings(seqs, trace):
    return ["".join("-" if col[r] == GAP else seqs[r][col[r]] for col in trace) for r in range(len(seqs))]


def rebased(trace, nrows):
    """The trace a reader reconstructs from gapped strings: the k-th symbol of a row gets index k."""
    cnt = [0] * nrows
    out = []
    for col in trace:
        new = []
        for r, v in enumerate(col):
            if v == GAP:
                new.append(GAP)
            else:
                new.append(cnt[r])
                cnt[r] += 1
        out.append(tuple(new))
    return tuple(out)


def covered(seqs, trace):
    """Per row the symbols that appear in the trace, in order."""
    return ["".join(seqs[r][col[r]] for col in trace if col[r] != GAP) for r in range(len(seqs))]


def symbol_rows(seqs, trace):
    """rows x columns, None for a gap."""
    return [[None if col[r] == GAP else seqs[r][col[r]] for col in trace] for r in range(len(seqs))]


def code_rows(seqs, trace, code_of):
    return [[GAP if col[r] == GAP else code_of[seqs[r][col[r]]] for col in trace] for r in range(len(seqs))]


def terminal_range(trace, nrows):
    """(start, stop) of the columns that are not terminal gaps: 'terminal gaps are gaps that
    appear before all sequences start and after any sequence ends'.  None when a row holds
    no symbol at all (then the notion is undefined)."""
    firsts, lasts = [], []
    for r in range(nrows):
        pos = [k for k, col in enumerate(trace) if col[r] != GAP]
        if not pos:
            return None
        firsts.append(pos[0])
        lasts.append(pos[-1])
    return max(firsts), min(lasts) + 1


def without_gap_columns(trace):
    return tuple(col for col in trace if GAP not in col)


def match_columns(seqs, trace):
    """Columns in which every row holds the same symbol and no gap."""
    n = 0
    for col in trace:
        if GAP in col:
            continue
        syms = {seqs[r][v] for r, v in enumerate(col)}
        if len(syms) == 1:
            n += 1
    return n


def identity(seqs, trace, mode):
    """Fraction, or None when the denominator is zero / undefined."""
    m = match_columns(seqs, trace)
    if mode == "all":
        length = len(trace)
    elif mode == "not_terminal":
        tr = terminal_range(trace, len(seqs))
        if tr is None or tr[1] <= tr[0]:
            return None
        length = tr[1] - tr[0]
    elif mode == "shortest":
        length = min(len(s) for s in seqs)
    else:
        raise ValueError(mode)
    if length == 0:
        return None
    return Fraction(m, length)


def pairwise_identity(seqs, trace, mode):
    """n x n list of Fractions (None where undefined)."""
    n = len(seqs)
    out = [[None] * n for _ in range(n)]
    for i in range(n):
        for j in range(n):
            sub = tuple((col[i], col[j]) for col in trace)
            m = sum(1 for a, b in sub if a != GAP and b != GAP and seqs[i][a] == seqs[j][b])
            if mode == "all":
                length = len(trace)
            elif mode == "not_terminal":
                tr = terminal_range(sub, 2)
                length = 0 if tr is None or tr[1] <= tr[0] else tr[1] - tr[0]
            else:
                length = min(len(seqs[i]), len(seqs[j]))
            out[i][j] = Fraction(m, length) if length else None
    return out


def gap_pair(gap):
    if isinstance(gap, (tuple, list)):
        return gap[0], gap[1]
    return gap, gap


def score_values(seqs, trace, sub_score, gap, terminal_penalty):
    """Set of acceptable scores of one alignment, column by column: every pair of rows that
    both hold a symbol scores sub_score(row_i symbol, row_j symbol) (i < j); every gap position
    costs `open` when it starts a gap run of its row and `extend` otherwise.  Without terminal
    penalty only the columns inside terminal_range() are charged; a run that begins in the
    terminal part and reaches into the charged part may be charged as opened there or as
    extended (the documentation does not say) - both values are returned.  None if
    terminal_range is undefined."""
    n = len(seqs)
    go, ge = gap_pair(gap)
    total = 0
    for col in trace:
        for i in range(n):
            for j in range(i + 1, n):
                if col[i] != GAP and col[j] != GAP:
                    total += sub_score(seqs[i][col[i]], seqs[j][col[j]])
    if terminal_penalty:
        start, stop = 0, len(trace)
    else:
        tr = terminal_range(trace, n)
        if tr is None:
            return None
        start, stop = tr
    variants = [total]
    for r in range(n):
        for k in range(start, stop):
            if trace[k][r] != GAP:
                continue
            if k > start and trace[k - 1][r] == GAP:
                variants = [v + ge for v in variants]
            elif k == start and k > 0 and trace[k - 1][r] == GAP and go != ge:
                variants = [v + go for v in variants] + [v + ge for v in variants]
            else:
                variants = [v + go for v in variants]
    return set(variants)


# ---------------------------------------------------------------------------
# numpy-style indexing of an alignment (columns, optionally rows)
# ---------------------------------------------------------------------------
def index_trace(trace, nrows, col_positions, row_positions=None):
    rows = list(range(nrows)) if row_positions is None else list(row_positions)
    return tuple(tuple(trace[c][r] for r in rows) for c in col_positions)


# ---------------------------------------------------------------------------
# CIGAR (SAM specification, section 1.4.6)
# ---------------------------------------------------------------------------
OP_CODE = {"M": 0, "I": 1, "D": 2, "N": 3, "S": 4, "H": 5, "P": 6, "=": 7, "X": 8}
CODE_OP = {v: k for k, v in OP_CODE.items()}
_CIGAR_RE = re.compile(r"(\d+)([MIDNSHP=XB])")


def cigar_parse(text):
    """'3M1I' -> [('M', 3), ('I', 1)]; raises ValueError on anything else."""
    out = []
    pos = 0
    for m in _CIGAR_RE.finditer(text):
        if m.start() != pos:
            raise ValueError("garbage in CIGAR %r" % text)
        out.append((m.group(2), int(m.group(1))))
        pos = m.end()
    if pos != len(text):
        raise ValueError("garbage in CIGAR %r" % text)
    return out


def cigar_expand(ops):
    return "".join(op * n for op, n in ops)


def cigar_interpret(ops, position):
    """Direct interpreter: the trace (reference row, segment row) a CIGAR describes, plus the
    number of reference / segment symbols it needs.  M,=,X pair one reference with one segment
    symbol; I is a segment symbol against a gap; D and N a reference symbol against a gap;
    S skips a segment symbol that is present in the stored sequence; H skips nothing."""
    r, s = position, 0
    cols = []
    for op, n in ops:
        for _ in range(n):
            if op in "M=X":
                cols.append((r, s))
                r += 1
                s += 1
            elif op == "I":
                cols.append((GAP, s))
                s += 1
            elif op in "DN":
                cols.append((r, GAP))
                r += 1
            elif op == "S":
                s += 1
            elif op == "H":
                pass
            else:
                raise ValueError(op)
    return tuple(cols), r, s


def deletion_runs(cols):
    """Maximal runs of columns (reference symbol, gap): list of (first_ref_index, stop_ref_index)."""
    runs = []
    cur = None
    for a, b in cols:
        if a != GAP and b == GAP:
            if cur is not None and cur[1] == a:
                cur[1] = a + 1
            else:
                if cur is not None:
                    runs.append(tuple(cur))
                cur = [a, a + 1]
        else:
            if cur is not None:
                runs.append(tuple(cur))
                cur = None
    if cur is not None:
        runs.append(tuple(cur))
    return runs


def cigar_expected(pair_cols, ref_seq, seg_seq, introns=(), distinguish_matches=False, hard_clip=False,
                   include_terminal_gaps=False):
    """What a CIGAR writer has to say about the two-row trace `pair_cols` (reference, segment).

    Returns a dict:
      status     'ok' | 'segment_absent' (no segment symbol in the trace: nothing to write)
                      | 'double_gap' (a written column has a gap in both rows: not expressible)
      expanded   one letter per written column / clipped base, e.g. 'SS==XDDI=S'
      columns    the written columns (terminal segment gaps dropped unless included)
      position   reference index of the first written column that has one (0 if none)
      read_cols  the trace a reader must return for (expanded, position) - segment indices are
                 relative to the stored segment, which lacks hard-clipped bases
      stored_seg the segment sequence as stored next to this CIGAR
    """
    seg_pos = [k for k, (a, b) in enumerate(pair_cols) if b != GAP]
    if not seg_pos:
        return {"status": "segment_absent"}
    cols = list(pair_cols)
    if not include_terminal_gaps:
        cols = cols[seg_pos[0]: seg_pos[-1] + 1]
    if any(a == GAP and b == GAP for a, b in cols):
        return {"status": "double_gap"}
    first_seg = pair_cols[seg_pos[0]][1]
    last_seg = pair_cols[seg_pos[-1]][1]
    start_clip = first_seg
    end_clip = len(seg_seq) - 1 - last_seg
    body = []
    for a, b in cols:
        if a == GAP:
            body.append("I")
        elif b == GAP:
            body.append("N" if any(s <= a < e for s, e in introns) else "D")
        elif not distinguish_matches:
            body.append("M")
        else:
            body.append("=" if ref_seq[a] == seg_seq[b] else "X")
    clip = "H" if hard_clip else "S"
    expanded = clip * start_clip + "".join(body) + clip * end_clip
    ref_idx = [a for a, _ in cols if a != GAP]
    position = ref_idx[0] if ref_idx else 0
    if hard_clip:
        stored = seg_seq[start_clip: len(seg_seq) - end_clip]
        read_cols = tuple((a, b if b == GAP else b - start_clip) for a, b in cols)
    else:
        stored = seg_seq
        read_cols = tuple(cols)
    return {"status": "ok", "expanded": expanded, "columns": tuple(cols), "position": position,
            "read_cols": read_cols, "stored_seg": stored, "start_clip": start_clip, "end_clip": end_clip}


# ---------------------------------------------------------------------------
# FASTA text (independent mini reader)
# ---------------------------------------------------------------------------
def fasta_parse(text):
    """[(header, concatenated sequence text)] in file order."""
    out = []
    for line in text.splitlines():
        line = line.strip()
        if not line:
            continue
        if line.startswith(">"):
            out.append([line[1:].strip(), ""])
        elif out:
            out[-1][1] += line
    return [(h, s) for h, s in out]


# ---------------------------------------------------------------------------
# multiple alignment: input classes for the documented distance formula
# ---------------------------------------------------------------------------
def _end_to_end(n, m):
    return list(enum_traces(((0, n), (0, m))))


def _abuts(trace):
    for k in range(1, len(trace)):
        a, b = trace[k - 1], trace[k]
        if (a[0] == GAP and b[1] == GAP) or (a[1] == GAP and b[0] == GAP):
            return True
    return False


def _gap_counts(trace, lo, hi):
    """(openings, extensions) of both rows inside columns lo..hi-1."""
    op = ex = 0
    for r in (0, 1):
        for k in range(lo, hi):
            if trace[k][r] != GAP:
                continue
            if k > lo and trace[k - 1][r] == GAP:
                ex += 1
            else:
                op += 1
    return op, ex


def fd_statuses(s1, s2, sub_score, gap, terminal_penalty, cache=None):
    """Classes of the documented similarity->distance conversion (align_multiple, Notes)
        D = -ln((S - S_rand) / (S_max - S_rand)),  S_max = (S_aa + S_bb)/2,
        S_rand = 1/L * sum_xy s_xy N_a(x) N_b(y) + N_open p_open + N_ext p_ext
    over every optimal global alignment of the pair (the documentation does not say which optimal
    alignment supplies L, N_open, N_ext; with and without gap-next-to-gap columns, and with both
    readings of 'non-terminal' when terminal gaps are free).  Returns a frozenset of
        'regular'   0 < ratio <= 1: a finite, non-negative distance exists
        'zero_den'  S_max == S_rand
        'eq'        S == S_rand (distance infinite)
        'lt'        S <  S_rand (documented ValueError)
        'other'     ratio negative or > 1 for another reason
    """
    key = (s1, s2, gap if not isinstance(gap, list) else tuple(gap), terminal_penalty)
    if cache is not None and key in cache:
        return cache[key]
    go, ge = gap_pair(gap)

    def best(a, b):
        """(score, [traces]) for the space with, and the space without, abutting gaps."""
        res = []
        allt = _end_to_end(len(a), len(b))
        for space in (allt, [t for t in allt if not _abuts(t)]):
            top, arg = None, []
            for t in space:
                vals = score_values((a, b), t, sub_score, gap, terminal_penalty)
                if vals is None:
                    continue
                for v in vals:
                    if top is None or v > top:
                        top, arg = v, [t]
                    elif v == top and t not in arg:
                        arg.append(t)
            res.append((top, arg))
        return res

    out = set()
    self1 = {r[0] for r in best(s1, s1)}
    self2 = {r[0] for r in best(s2, s2)}
    prod = sum(sub_score(x, y) for x in s1 for y in s2)
    for S, traces in best(s1, s2):
        for t in traces:
            ranges = [(0, len(t))]
            if not terminal_penalty:
                tr = terminal_range(t, 2)
                both = [k for k, c in enumerate(t) if c[0] != GAP and c[1] != GAP]
                ranges = []
                if tr is not None and tr[1] > tr[0]:
                    ranges.append(tr)
                if both:
                    ranges.append((both[0], both[-1] + 1))
                if not ranges or not both:
                    ranges.append((0, 0))
            for lo, hi in ranges:
                op, ex = _gap_counts(t, lo, hi)
                s_rand = Fraction(prod, len(t)) + op * go + ex * ge
                for a in self1:
                    for b in self2:
                        s_max = Fraction(a + b, 2)
                        if s_max == s_rand:
                            out.add("zero_den")
                        elif S < s_rand:
                            out.add("lt")
                        elif S == s_rand:
                            out.add("eq")
                        else:
                            ratio = (S - s_rand) / (s_max - s_rand)
                            out.add("regular" if 0 < ratio <= 1 else "other")
    out = frozenset(out)
    if cache is not None:
        cache[key] = out
    return out


# ---------------------------------------------------------------------------
# guide trees as nested tuples:  leaf = int,  inner node = tuple of children
# ---------------------------------------------------------------------------
def binary_topologies(leaves):
    """Every unordered rooted binary tree on the given labelled leaves, as nested tuples
    (one embedding each: the subtree holding the smallest leaf comes first)."""
    leaves = list(leaves)
    if len(leaves) == 1:
        return [leaves[0]]
    out = []
    first, rest = leaves[0], leaves[1:]
    for k in range(0, len(rest)):
        for comp in itertools.combinations(rest, k):
            left = [first] + list(comp)
            right = [x for x in rest if x not in comp]
            if not right:
                continue
            for lt in binary_topologies(left):
                for rt in binary_topologies(right):
                    out.append((lt, rt))
    return out


def mirror(t):
    if isinstance(t, int):
        return t
    return tuple(mirror(c) for c in reversed(t))


def tree_leaves(t):
    if isinstance(t, int):
        return [t]
    out = []
    for c in t:
        out += tree_leaves(c)
    return out


def is_binary(t):
    if isinstance(t, int):
        return True
    return len(t) == 2 and all(is_binary(c) for c in t)
