"""Naive reference model for C19: rooted trees with parent pointers, an
independent Newick reader, enumerators for tree shapes / unrooted topologies,
additive matrices and the UPGMA oracle.  Shares no code with biotite.

Tree specification (JSON-able):   leaf  = int (reference index)
                                  inner = [[child_spec, distance], ...]
"""

import itertools


# ---------------------------------------------------------------------------
# parent-pointer tree
# ---------------------------------------------------------------------------
class MNode:
    __slots__ = ("idx", "children", "dist", "parent", "nid")

    def __init__(self):
        self.idx = None       # reference index for leaves
        self.children = []    # MNode list for inner nodes
        self.dist = None      # distance to parent (None for the root)
        self.parent = None
        self.nid = -1         # preorder id


def build(spec):
    """-> (root, nodes in preorder)"""
    nodes = []

    def rec(s, parent, dist):
        n = MNode()
        n.parent = parent
        n.dist = dist
        n.nid = len(nodes)
        nodes.append(n)
        if isinstance(s, int):
            n.idx = s
        else:
            for cs, d in s:
                n.children.append(rec(cs, n, d))
        return n

    root = rec(spec, None, None)
    return root, nodes


def leaf_indices(node):
    if node.idx is not None:
        return [node.idx]
    out = []
    for c in node.children:
        out += leaf_indices(c)
    return out


def spec_leaves(spec):
    if isinstance(spec, int):
        return [spec]
    out = []
    for c, _ in spec:
        out += spec_leaves(c)
    return out


def path_up(node):
    p = []
    while node is not None:
        p.append(node)
        node = node.parent
    return p


def lca(a, b):
    anc = set(id(x) for x in path_up(a))
    for x in path_up(b):
        if id(x) in anc:
            return x
    return None


def path_sum(a, b, topological=False):
    c = lca(a, b)
    if c is None:
        return None
    s = 0.0
    for start in (a, b):
        x = start
        while x is not c:
            s += 1.0 if topological else float(x.dist)
            x = x.parent
    return s


def pair_table(nodes):
    """{(a.nid, b.nid): (lca nid, path length, edge count)} for all ordered pairs, by walking up from
    both nodes to the first shared ancestor and adding the edge lengths met on the way."""
    out = {}
    for a in nodes:
        up_a = path_up(a)
        pos = {id(x): k for k, x in enumerate(up_a)}
        for b in nodes:
            s = 0.0
            steps = 0
            x = b
            while id(x) not in pos:
                s += float(x.dist)
                steps += 1
                x = x.parent
            k = pos[id(x)]
            for y in up_a[:k]:
                s += float(y.dist)
            out[(a.nid, b.nid)] = (x.nid, s, float(steps + k))
    return out


def clade_map(spec):
    """{(frozenset of leaf indices, k): distance to parent}; k numbers the nodes of a unary chain
    (which all span the same leaf set) from the top.  With distinct leaf indices this identifies every
    node, independent of the order of children."""
    items = []          # preorder: (clade, dist), so that chain members are numbered from the top

    def rec(s, dist):
        slot = len(items)
        items.append(None)
        if isinstance(s, int):
            cl = frozenset((s,))
        else:
            cl = frozenset().union(*[rec(cs, d) for cs, d in s])
        items[slot] = (cl, dist)
        return cl

    rec(spec, None)
    out = {}
    for cl, dist in items:
        k = 0
        while (cl, k) in out:
            k += 1
        out[(cl, k)] = dist
    return out


def canon(spec, with_dist=True):
    """Order-independent canonical form (hashable)."""
    def rec(s, dist):
        d = dist if with_dist else None
        if isinstance(s, int):
            return ("L", s, d)
        return ("N", tuple(sorted((rec(cs, cd) for cs, cd in s), key=repr)), d)

    return rec(spec, None)


def all_leaf_distances(spec, topological=False):
    root, nodes = build(spec)
    leaves = {n.idx: n for n in nodes if n.idx is not None}
    out = {}
    for i in leaves:
        for j in leaves:
            out[(i, j)] = path_sum(leaves[i], leaves[j], topological)
    return out


# ---------------------------------------------------------------------------
# independent Newick reader (strict: no whitespace skipping; names are taken literally)
# ---------------------------------------------------------------------------
class NewickError(Exception):
    pass


STRUCT = set("(),:;")


def newick_parse(s):
    """-> node = ("leaf", name, length|None) | ("inner", [nodes], name, length|None); the string must
    end with ';'."""
    pos = [0]

    def name():
        st = pos[0]
        while pos[0] < len(s) and s[pos[0]] not in STRUCT:
            pos[0] += 1
        return s[st:pos[0]]

    def length():
        if pos[0] < len(s) and s[pos[0]] == ":":
            pos[0] += 1
            tok = name()
            try:
                return float(tok), tok
            except ValueError:
                raise NewickError("bad length %r" % tok)
        return None, None

    def subtree():
        if pos[0] < len(s) and s[pos[0]] == "(":
            pos[0] += 1
            kids = [subtree()]
            while pos[0] < len(s) and s[pos[0]] == ",":
                pos[0] += 1
                kids.append(subtree())
            if pos[0] >= len(s) or s[pos[0]] != ")":
                raise NewickError("expected ')' at %d" % pos[0])
            pos[0] += 1
            nm = name()
            ln, tok = length()
            return ("inner", kids, nm, ln, tok)
        nm = name()
        ln, tok = length()
        return ("leaf", nm, ln, tok)

    t = subtree()
    if pos[0] >= len(s) or s[pos[0]] != ";" or pos[0] != len(s) - 1:
        raise NewickError("expected terminal ';' at %d" % pos[0])
    return t


def decorate(s, style):
    """Whitespace-decorated variants of a Newick string: blanks only *between* tokens."""
    if style == "comma_space":
        return s.replace(",", ", ")
    if style == "multiline":
        return "  " + s.replace(")", ")\n").replace("(", "\t(").replace(";", " ;") + " \n"
    if style == "colon_space":
        return s.replace(":", " : ").replace(",", " ,")
    if style == "no_semicolon":
        assert s.endswith(";")
        return s[:-1]
    if style == "plain":
        return s
    raise ValueError(style)


# ---------------------------------------------------------------------------
# enumeration: ordered rooted shapes
# ---------------------------------------------------------------------------
def compositions(n, kmin=2):
    """ordered tuples of positive ints summing to n with at least kmin parts"""
    def rec(rest):
        if rest == 0:
            yield ()
            return
        for first in range(1, rest + 1):
            for tail in rec(rest - first):
                yield (first,) + tail

    for c in rec(n):
        if len(c) >= kmin:
            yield c


def shapes_no_unary(n):
    """All ordered rooted trees with n leaves in which every inner node has >= 2 children.
    Shape = "L" | tuple of shapes."""
    if n == 1:
        return ["L"]
    out = []
    for comp in compositions(n, 2):
        for parts in itertools.product(*[shapes_no_unary(k) for k in comp]):
            out.append(tuple(parts))
    return out


def count_nodes(shape):
    if shape == "L":
        return 1
    return 1 + sum(count_nodes(c) for c in shape)


def insert_unary(shape, positions):
    """positions: multiset (sorted list) of preorder node numbers of `shape`; above each listed node one
    unary node is inserted (twice listed -> chain of two)."""
    counter = [0]

    def rec(s):
        me = counter[0]
        counter[0] += 1
        if s == "L":
            r = "L"
        else:
            r = tuple(rec(c) for c in s)
        for _ in range(positions.count(me)):
            r = (r,)
        return r

    return rec(shape)


def shapes(n, max_unary):
    """All ordered rooted shapes with n leaves, any arity >= 1, at most max_unary unary nodes."""
    out = []
    for base in shapes_no_unary(n):
        k = count_nodes(base)
        for u in range(0, max_unary + 1):
            for pos in itertools.combinations_with_replacement(range(k), u):
                out.append(insert_unary(base, list(pos)))
    return out


def shape_stats(shape):
    """-> (n leaves, n unary nodes, max arity, n edges)"""
    if shape == "L":
        return (1, 0, 0, 0)
    nl = un = ar = ed = 0
    for c in shape:
        a, b, cc, d = shape_stats(c)
        nl += a
        un += b
        ar = max(ar, cc)
        ed += d + 1
    return (nl, un + (1 if len(shape) == 1 else 0), max(ar, len(shape)), ed)


def instantiate(shape, perm, dists):
    """shape + leaf index per leaf position (left to right) + distance per edge (preorder of the child
    nodes) -> spec"""
    li = [0]
    ei = [0]

    def rec(s):
        if s == "L":
            v = perm[li[0]]
            li[0] += 1
            return v
        out = []
        for c in s:
            d = dists[ei[0]]
            ei[0] += 1
            out.append([rec(c), d])
        return out

    return rec(shape)


# ---------------------------------------------------------------------------
# enumeration: unrooted labelled binary topologies and additive matrices
# ---------------------------------------------------------------------------
def unrooted_topologies(n):
    """All (2n-5)!! unrooted binary trees on labelled leaves 0..n-1 (n >= 3), by inserting leaf k into
    every edge of every tree on k leaves.  A topology is an edge list [(u, v)], vertices 0..n-1 are the
    leaves, n.. are inner vertices; pendant edges come as (leaf, inner)."""
    trees = [[(0, n), (1, n), (2, n)]]
    nxt_inner = n + 1
    for k in range(3, n):
        new = []
        for t in trees:
            for ei, (u, v) in enumerate(t):
                w = nxt_inner
                t2 = t[:ei] + t[ei + 1:] + [(u, w), (w, v), (k, w)]
                new.append(t2)
        trees = new
        nxt_inner += 1
    # normalise: pendant edges first (leaf, inner), sorted; inner edges sorted
    out = []
    for t in trees:
        pend = sorted((min(u, v), max(u, v)) for u, v in t if min(u, v) < n)
        inner = sorted((min(u, v), max(u, v)) for u, v in t if min(u, v) >= n)
        out.append(pend + inner)
    return out


def tree_metric(n, edges, lengths):
    """leaf-to-leaf path lengths of an edge-weighted tree (plain DFS from every leaf)."""
    adj = {}
    for (u, v), w in zip(edges, lengths):
        adj.setdefault(u, []).append((v, w))
        adj.setdefault(v, []).append((u, w))
    D = [[0.0] * n for _ in range(n)]
    for s in range(n):
        stack = [(s, -1, 0.0)]
        while stack:
            x, par, d = stack.pop()
            if x < n:
                D[s][x] = d
            for y, w in adj[x]:
                if y != par:
                    stack.append((y, x, d + w))
    return D


# ---------------------------------------------------------------------------
# UPGMA oracle
# ---------------------------------------------------------------------------
def avg_link(D, A, B):
    return sum(D[a][b] for a in A for b in B) / (len(A) * len(B))


def upgma_greedy_ok(D, merges, tol):
    """merges: list of (frozenset A, frozenset B) = the inner nodes of the returned tree.  True if the
    merges can be ordered so that every merge joins two clusters present at that time whose
    average-linkage distance is minimal among all pairs of present clusters (ties: any)."""
    n = len(D)
    start = frozenset(frozenset([i]) for i in range(n))
    todo = frozenset(range(len(merges)))
    seen = set()

    def rec(clusters, rest):
        if not rest:
            return len(clusters) == 1
        if (clusters, rest) in seen:
            return False
        seen.add((clusters, rest))
        cl = list(clusters)
        best = min(avg_link(D, cl[i], cl[j]) for i in range(len(cl)) for j in range(i))
        for m in rest:
            A, B = merges[m]
            if A in clusters and B in clusters and avg_link(D, A, B) <= best + tol:
                if rec((clusters - {A, B}) | {A | B}, rest - {m}):
                    return True
        return False

    return rec(start, todo)


def upgma_has_ties(D, tol):
    """Naive average-linkage clustering; True if at some step the smallest cluster distance is not unique
    (then more than one UPGMA tree exists)."""
    clusters = [frozenset([i]) for i in range(len(D))]
    while len(clusters) > 1:
        ds = sorted((avg_link(D, clusters[i], clusters[j]), i, j) for i in range(len(clusters)) for j in range(i))
        if len(ds) > 1 and ds[1][0] - ds[0][0] <= tol * max(1.0, ds[0][0]):
            return True
        _, i, j = ds[0]
        merged = clusters[i] | clusters[j]
        clusters = [c for k, c in enumerate(clusters) if k not in (i, j)] + [merged]
    return False
