"""Object flavours for the alignment checks (dimension audit, shared by C08 and C09).

A FlavourEnv is an `align_inputs.Env` (same logical case, same model matrix, same codes) whose biotite
objects are built in another, equally legitimate way through the public API: code arrays that are
read-only or non-contiguous, Sequence subclasses, a sequence alphabet that the matrix alphabet merely
extends, substitution matrices built from int64 / Fortran-ordered / read-only / non-contiguous arrays,
from dicts (two insertion orders) or by transposing twice, library sequence classes with the library
matrices.  Every existing check function runs unchanged on such an environment, i.e. each flavour is
compared with the brute-force model directly.
"""

import numpy as np

from mc.models import align_inputs as I

SEQ_FLAVOURS = ["subclass", "readonly_code", "strided_code", "alphabet_prefix"]
MAT_FLAVOURS = ["int64_array", "fortran_array", "readonly_array", "noncontiguous_view", "dict", "dict_reversed",
                "transposed_twice", "int16_array"]
LIB_FLAVOURS = ["nucleotide", "protein"]
# sequences that the library itself hands out (second audit, dimension E)
DERIVED_SEQ_FLAVOURS = ["sliced", "strided_slice", "fancy_indexed", "reversed_twice", "copied", "concatenated",
                        "symbols_reassigned"]


class FlavourEnv(I.Env):
    def __init__(self, k1, k2, fam, variant, embed, seq_flavour="plain", mat_flavour="plain"):
        super().__init__(k1, k2, fam, variant, embed)
        import biotite.sequence as bseq
        import biotite.sequence.align as balign

        self.seq_flavour, self.mat_flavour = seq_flavour, mat_flavour
        full = self.full
        a1, a2 = self.alph1, self.alph2
        if mat_flavour == "plain":
            pass
        elif mat_flavour == "int64_array":
            self.matrix = balign.SubstitutionMatrix(a1, a2, full.astype(np.int64))
        elif mat_flavour == "int16_array":
            self.matrix = balign.SubstitutionMatrix(a1, a2, full.astype(np.int16))
        elif mat_flavour == "fortran_array":
            self.matrix = balign.SubstitutionMatrix(a1, a2, np.asfortranarray(full))
        elif mat_flavour == "readonly_array":
            ro = full.copy()
            ro.setflags(write=False)
            self.matrix = balign.SubstitutionMatrix(a1, a2, ro)
        elif mat_flavour == "noncontiguous_view":
            big = np.full((2 * full.shape[0], 3 * full.shape[1]), -I.POISON, dtype=np.int32)
            big[::2, ::3] = full
            self.matrix = balign.SubstitutionMatrix(a1, a2, big[::2, ::3])
        elif mat_flavour in ("dict", "dict_reversed"):
            keys = [(i, j) for i in range(full.shape[0]) for j in range(full.shape[1])]
            if mat_flavour == "dict_reversed":
                keys.reverse()
            d = {(a1.decode(i), a2.decode(j)): int(full[i, j]) for i, j in keys}
            self.matrix = balign.SubstitutionMatrix(a1, a2, d)
        elif mat_flavour == "transposed_twice":
            self.matrix = balign.SubstitutionMatrix(a1, a2, full.copy()).transpose().transpose()
        else:
            raise ValueError(mat_flavour)
        if seq_flavour == "alphabet_prefix":
            # the sequences get their own, shorter alphabets which the matrix alphabets extend
            self.salph1 = bseq.Alphabet(list(range(max(self.codes1) + 1)))
            self.salph2 = bseq.Alphabet(list(range(max(self.codes2) + 1)))
        if seq_flavour == "subclass":
            base = bseq.GeneralSequence

            class AuditSequence(base):
                """A user-defined sequence type."""

                def __copy_create__(self):
                    return AuditSequence(self._alphabet)

            self._sub = AuditSequence

    def seq(self, which, letters):
        cache = self._cache1 if which == 1 else self._cache2
        s = cache.get(letters)
        if s is not None:
            return s
        fl = self.seq_flavour
        codes = list(self.codes(which, letters))
        alph = self.alph1 if which == 1 else self.alph2
        G = self._bseq.GeneralSequence
        if fl == "plain":
            s = G(alph, codes)
        elif fl == "subclass":
            s = self._sub(alph, codes)
        elif fl == "alphabet_prefix":
            s = G(self.salph1 if which == 1 else self.salph2, codes)
        elif fl == "readonly_code":
            s = G(alph)
            arr = np.array(codes, dtype=np.uint8)
            arr.setflags(write=False)
            s.code = arr  # public setter; keeps the array
        elif fl == "strided_code":
            s = G(alph)
            arr = np.full(3 * len(codes) + 2, 255, dtype=np.uint8)
            arr[1:1 + 3 * len(codes):3] = codes
            s.code = arr[1:1 + 3 * len(codes):3]
        elif fl == "sliced":
            pad = codes[-1] if codes else 0
            s = G(alph, [pad] + codes + [pad, pad])[1:1 + len(codes)]
        elif fl == "strided_slice":
            pad = codes[0] if codes else 0
            big = []
            for c in codes:
                big += [c, pad]
            s = G(alph, big)[::2]
        elif fl == "fancy_indexed":
            s = G(alph, codes[::-1])[np.arange(len(codes) - 1, -1, -1)]
        elif fl == "reversed_twice":
            s = G(alph, codes).reverse().reverse()
        elif fl == "copied":
            s = G(alph, codes).copy()
        elif fl == "concatenated":
            h = len(codes) // 2
            s = G(alph, codes[:h]) + G(alph, codes[h:])
        elif fl == "symbols_reassigned":
            s = G(alph, codes[::-1] + codes)     # another length first
            s.symbols = codes                    # symbols of these alphabets are the codes themselves
        else:
            raise ValueError(fl)
        cache[letters] = s
        return s

    def describe(self):
        d = super().describe()
        d["flavour"] = [self.seq_flavour, self.mat_flavour]
        return d


class LibEnv:
    """Library sequence classes with the library's standard matrices (letters 0..3 -> four symbols)."""

    SYMBOLS = {"nucleotide": "ACGT", "protein": "AWC*"}

    def __init__(self, which):
        import biotite.sequence as bseq
        import biotite.sequence.align as balign

        self.which = which
        self.k1 = self.k2 = 4
        self.fam, self.variant, self.embed = which, 0, 0
        self.dtype1 = self.dtype2 = "uint8"
        if which == "nucleotide":
            self._cls = bseq.NucleotideSequence
            self.matrix = balign.SubstitutionMatrix.std_nucleotide_matrix()
        else:
            self._cls = bseq.ProteinSequence
            self.matrix = balign.SubstitutionMatrix.std_protein_matrix()
        self.sym = self.SYMBOLS[which]
        alph = self.matrix.get_alphabet1()
        self.codes1 = self.codes2 = tuple(int(alph.encode(x)) for x in self.sym)
        self.mat = self.matrix.score_matrix().tolist()
        self.logical = [[self.mat[a][b] for b in self.codes2] for a in self.codes1]
        self._cache = {}

    def codes(self, which, letters):
        return tuple(self.codes1[x] for x in letters)

    def seq(self, which, letters):
        s = self._cache.get(letters)
        if s is None:
            s = self._cache[letters] = self._cls("".join(self.sym[x] for x in letters))
        return s

    def mutated(self):
        return [(1, l) for l, s in self._cache.items() if tuple(int(x) for x in s.code) != self.codes(1, l)]

    def describe(self):
        return {"k": [4, 4], "fam": self.which, "variant": 0, "embed": 0, "dtypes": ["uint8", "uint8"],
                "logical_matrix": self.logical, "codes": [list(self.codes1), list(self.codes2)],
                "flavour": ["library", self.which]}


def make_env(case):
    """Rebuild the environment of a recorded case (replay)."""
    fl = case.get("flavour")
    k1, k2 = case["k"]
    if fl is None:
        d1, d2 = case.get("dtypes", ["uint8", "uint8"])
        return I.Env(k1, k2, case["fam"], case["variant"], case["embed"], d1, d2)
    if fl[0] == "library":
        return LibEnv(fl[1])
    return FlavourEnv(k1, k2, case["fam"], case["variant"], case["embed"], fl[0], fl[1])


def flavour_envs(variant, embed):
    """One environment per flavour (the other axis stays plain), on the asymmetric and the rectangular family."""
    out = []
    for sf in SEQ_FLAVOURS:
        out.append(FlavourEnv(2, 2, "asym", variant, embed, sf, "plain"))
    out.append(FlavourEnv(2, 3, "rect", variant, embed, "alphabet_prefix", "plain"))
    for mf in MAT_FLAVOURS:
        out.append(FlavourEnv(2, 2, "asym", variant, embed, "plain", mf))
    for mf in ("dict", "fortran_array", "transposed_twice"):
        out.append(FlavourEnv(2, 3, "rect", variant, embed, "plain", mf))
    out.append(FlavourEnv(2, 2, "asym", variant, embed, "readonly_code", "readonly_array"))
    return out


def derived_envs(variant, embed):
    return [FlavourEnv(2, 2, "asym", variant, embed, sf, "plain") for sf in DERIVED_SEQ_FLAVOURS]


def snapshot(env, l1, l2):
    """Bytes of everything the call receives (differential: must be identical afterwards)."""
    s1, s2 = env.seq(1, l1), env.seq(2, l2)
    return (bytes(np.ascontiguousarray(s1.code)), bytes(np.ascontiguousarray(s2.code)),
            bytes(np.ascontiguousarray(env.matrix.score_matrix())), str(s1.get_alphabet()), str(s2.get_alphabet()))


def result_key(res):
    """Hashable, deep copy of a result (list of alignments / one alignment / score)."""
    if isinstance(res, list):
        return tuple((int(a.score), I.trace_cols(a.trace)) for a in res)
    if hasattr(res, "trace"):
        return (int(res.score), I.trace_cols(res.trace))
    return int(res)


def traces_share_memory(res):
    if not isinstance(res, list):
        return False
    for i in range(len(res)):
        for j in range(i + 1, len(res)):
            if res[i].trace.size and res[j].trace.size and np.shares_memory(res[i].trace, res[j].trace):
                return True
    return False


def scribble(res):
    """Overwrite every returned trace / score holder that is writable."""
    items = res if isinstance(res, list) else ([res] if hasattr(res, "trace") else [])
    for a in items:
        if a.trace.flags.writeable:
            a.trace[...] = -7
        a.score = -12345
        a.sequences.reverse()


def mirror(key):
    """Result key of the call with swapped arguments, mapped back."""
    if isinstance(key, tuple) and key and isinstance(key[0], tuple):
        return tuple((sc, tuple((j, i) for i, j in t)) for sc, t in key)
    if isinstance(key, tuple) and len(key) == 2:
        return (key[0], tuple((j, i) for i, j in key[1]))
    return key
