"""Reference models for C03 (symbol encoding, sequences, translation).

Plain Python lists / dicts / strings, written from the property statement and
the public documentation of biotite.sequence; no biotite import, no shared code.
"""

import itertools

# the 94 printable, non-whitespace ASCII characters ("The alphabet size is
# limited to the 94 printable, non-whitespace characters")
PRINTABLE94 = [chr(c) for c in range(33, 127)]

NUC4 = "ACGT"
# order documented by NucleotideSequence.ambiguous_alphabet() / the class docs
NUC15 = "ACGTRYWSMKHBVDN"
PROT24 = "ACDEFGHIKLMNPQRSTVWYBZX*"

# IUPAC nucleotide codes as base sets (IUPAC-IUB 1970 / NC-IUB 1984)
IUPAC_SETS = {
    "A": "A", "C": "C", "G": "G", "T": "T",
    "R": "AG", "Y": "CT", "W": "AT", "S": "CG", "M": "AC", "K": "GT",
    "H": "ACT", "B": "CGT", "V": "ACG", "D": "AGT", "N": "ACGT",
}
_WC = {"A": "T", "T": "A", "C": "G", "G": "C"}


def iupac_complement(letter):
    """Complement of an IUPAC letter = the letter denoting the set of the
    Watson-Crick partners of its bases."""
    want = frozenset(_WC[b] for b in IUPAC_SETS[letter])
    for k, v in IUPAC_SETS.items():
        if frozenset(v) == want:
            return k
    raise KeyError(letter)


IUPAC_COMPLEMENT = {k: iupac_complement(k) for k in IUPAC_SETS}


# ---------------------------------------------------------------------------
# alphabet model
# ---------------------------------------------------------------------------
class AlphaModel:
    """symbols: list of pairwise different hashable symbols; code = position."""

    def __init__(self, symbols):
        self.symbols = list(symbols)
        self.n = len(self.symbols)

    def has(self, sym):
        # equality + same type: 1 / True / 1.0 are never mixed in the palettes
        for s in self.symbols:
            if type(s) is type(sym) and s == sym:
                return True
        return False

    def encode(self, sym):
        for i, s in enumerate(self.symbols):
            if type(s) is type(sym) and s == sym:
                return i
        return None  # REFUSE

    def decode(self, code):
        if 0 <= code < self.n:
            return self.symbols[code]
        return None  # REFUSE

    def extends(self, other):
        """self extends other: other's symbols are a prefix of self's."""
        return other.n <= self.n and self.symbols[: other.n] == other.symbols


def kmer_digits(code, n, k):
    """k base-n digits of code, most significant first."""
    out = []
    for _ in range(k):
        out.append(code % n)
        code //= n
    return out[::-1]


def kmer_fuse(codes, n):
    v = 0
    for c in codes:
        v = v * n + c
    return v


def spacing_models(k, max_span):
    """All spacing models (sorted tuples of informative offsets, first = 0 is NOT required by
    the documentation but the last offset defines the span) with k informative positions and
    span <= max_span, excluding the contiguous one."""
    out = []
    for span in range(k, max_span + 1):
        # last position informative (defines the span); first position free
        for rest in itertools.combinations(range(span - 1), k - 1):
            sp = tuple(rest) + (span - 1,)
            if sp != tuple(range(k)):
                out.append(sp)
    return out


def kmers_of(seq, n, k, spacing):
    """Model of create_kmers. Returns (list of k-mer codes, set of positions read)."""
    sp = list(spacing) if spacing is not None else list(range(k))
    span = sp[-1] + 1
    cnt = len(seq) - span + 1
    out, read = [], set()
    for i in range(max(cnt, 0)):
        out.append(kmer_fuse([seq[i + o] for o in sp], n))
        read.update(i + o for o in sp)
    return out, read, cnt


# ---------------------------------------------------------------------------
# codon tables / translation
# ---------------------------------------------------------------------------
# The standard genetic code (textbook), codons in TCAG order
_STD_AA = "FFLLSSSSYY**CC*WLLLLPPPPHHQQRRRRIIIMTTTTNNKKSSRRVVVVAAAADDEEGGGG"
CODONS_TCAG = ["".join(c) for c in itertools.product("TCAG", repeat=3)]
STANDARD_CODE = dict(zip(CODONS_TCAG, _STD_AA))
ALL_CODONS = ["".join(c) for c in itertools.product(NUC4, repeat=3)]


def parse_ncbi_tables(text):
    """Independent reader of the NCBI-style table file shipped with biotite:
    blocks of `name`, `id`, `AA`, `Init`, `Base1..3` lines.
    Returns {id: {"names": [...], "aa": {codon: letter}, "starts": set}}"""
    tables = {}
    cur = {}
    for raw in text.splitlines() + [""]:
        line = raw.rstrip("\n")
        if not line.strip():
            if "id" in cur and all(k in cur for k in ("AA", "Init", "Base1", "Base2", "Base3")):
                aa, starts = {}, set()
                for a, i, b1, b2, b3 in zip(cur["AA"], cur["Init"], cur["Base1"], cur["Base2"], cur["Base3"]):
                    aa[b1 + b2 + b3] = a
                    if i == "i":
                        starts.add(b1 + b2 + b3)
                tables[cur["id"]] = {"names": cur.get("names", []), "aa": aa, "starts": starts}
            cur = {}
            continue
        if line.startswith("#"):
            continue
        key, _, rest = line.partition(" ")
        rest = rest.strip()
        if key == "name":
            cur["names"] = [x.strip() for x in rest.split(";")]
        elif key == "id":
            cur["id"] = int(rest)
        elif key in ("AA", "Init", "Base1", "Base2", "Base3"):
            cur[key] = rest
    return tables


def translate_complete(s, aa):
    return "".join(aa[s[i:i + 3]] for i in range(0, len(s), 3))


def orfs(s, aa, starts, met_start):
    """[(protein string, (first nucleotide index, exclusive end index))] sorted by start:
    for every frame and every in-frame start codon the stretch up to and including the first
    in-frame stop codon, or up to the end of the frame."""
    res = []
    L = len(s)
    for f in range(3):
        ncod = (L - f) // 3
        cods = [s[f + 3 * j: f + 3 * j + 3] for j in range(max(ncod, 0))]
        for j, c in enumerate(cods):
            if c not in starts:
                continue
            prot = []
            end = None
            for j2 in range(j, len(cods)):
                a = aa[cods[j2]]
                prot.append(a)
                if a == "*":
                    end = f + 3 * (j2 + 1)
                    break
            if end is None:
                end = f + 3 * len(cods)
            if met_start:
                prot[0] = "M"
            res.append(("".join(prot), (f + 3 * j, end)))
    res.sort(key=lambda x: x[1][0])
    return res
