"""./check <id> [--tier quick|thorough] [--replay file] [--jobs N]

Orchestrates one property check: rebuild from /repo's working tree, enumerate
the property's shards over a pool of crash-isolated workers, match violations
against known_findings.json, write evidence, print VIOLATION / KNOWN-FINDING
lines, exit 0 / 1 (violation) / 2 (check could not run)."""

import argparse
import importlib
import json
import os
import pickle
import queue
import re
import signal
import struct
import subprocess
import sys
import tempfile
import threading
import time
from pathlib import Path

VERIF = Path(__file__).resolve().parent.parent
sys.path.insert(0, str(VERIF))

os.environ.setdefault("PYTHONHASHSEED", "0")
os.environ.setdefault("OMP_NUM_THREADS", "1")
os.environ.setdefault("OPENBLAS_NUM_THREADS", "1")
os.environ.setdefault("MKL_NUM_THREADS", "1")
os.environ["PYTHONDONTWRITEBYTECODE"] = "1"

from mc import loader  # noqa: E402
from mc.ctx import Ctx, h64, jsonable  # noqa: E402

PY = sys.executable
EVID = VERIF / "evidence"
REPLAYS = VERIF / "replays"
KNOWN = VERIF / "known_findings.json"
SCHEMA = Path("/root/.vp/EVIDENCE.schema.json")


def log(*a):
    print("[check]", *a, file=sys.stderr, flush=True)


# ---------------------------------------------------------------------------
# worker pool
# ---------------------------------------------------------------------------
class Worker:
    def __init__(self, prop_id, tier, seed, idx, tmpdir):
        self.prop_id, self.tier, self.seed, self.idx = prop_id, tier, seed, idx
        self.journal = os.path.join(tmpdir, "journal%d" % idx)
        self.proc = None
        self.start()

    def start(self):
        req_r, req_w = os.pipe()
        resp_r, resp_w = os.pipe()
        with open(self.journal, "wb") as f:
            f.write(b"\0\0\0\0")
        self.proc = subprocess.Popen(
            [PY, str(VERIF / "mc" / "worker.py"), self.prop_id, self.tier, str(self.seed),
             str(req_r), str(resp_w), self.journal],
            pass_fds=(req_r, resp_w), cwd=str(VERIF), stdin=subprocess.DEVNULL,
        )
        os.close(req_r)
        os.close(resp_w)
        self.req = os.fdopen(req_w, "wb")
        self.resp = os.fdopen(resp_r, "rb")
        msg = self._recv(timeout=300)
        if not msg or not msg.get("ready"):
            raise RuntimeError("worker %d failed to start" % self.idx)

    def _send(self, obj):
        data = pickle.dumps(obj, protocol=4)
        self.req.write(struct.pack(">Q", len(data)))
        self.req.write(data)
        self.req.flush()

    def _recv(self, timeout):
        import select

        fd = self.resp.fileno()
        deadline = time.monotonic() + timeout
        buf = b""
        need = 8
        hdr = None
        while True:
            left = deadline - time.monotonic()
            if left <= 0:
                return "timeout"
            rl, _, _ = select.select([fd], [], [], min(left, 5.0))
            if not rl:
                continue
            b = os.read(fd, min(1 << 20, need - len(buf)))
            if not b:
                return None
            buf += b
            if len(buf) == need:
                if hdr is None:
                    (n,) = struct.unpack(">Q", buf)
                    hdr, buf, need = n, b"", n
                    if n == 0:
                        return pickle.loads(b"")
                else:
                    return pickle.loads(buf)

    def read_journal(self):
        try:
            with open(self.journal, "rb") as f:
                n = int.from_bytes(f.read(4), "big")
                return f.read(n).decode("utf-8", "replace") if n else None
        except OSError:
            return None

    def run(self, shard, skip, timeout):
        try:
            self._send({"shard": shard, "skip": list(skip)})
        except BrokenPipeError:
            return self._dead()
        msg = self._recv(timeout)
        if msg == "timeout":
            case = self.read_journal()
            self.kill()
            return {"status": "timeout", "case": case}
        if msg is None:
            return self._dead()
        return {"status": "ok", "result": msg["result"]}

    def _dead(self):
        rc = self.proc.wait()
        case = self.read_journal()
        self.close_pipes()
        return {"status": "died", "rc": rc, "case": case}

    def close_pipes(self):
        for f in (self.req, self.resp):
            try:
                f.close()
            except Exception:  # noqa: BLE001
                pass

    def kill(self):
        try:
            self.proc.kill()
        except Exception:  # noqa: BLE001
            pass
        self.proc.wait()
        self.close_pipes()

    def quit(self):
        try:
            self._send({"quit": True})
        except Exception:  # noqa: BLE001
            pass
        try:
            self.proc.wait(timeout=10)
        except Exception:  # noqa: BLE001
            self.kill()
        self.close_pipes()


def run_pool(mod, prop_id, tier, seed, shards, jobs):
    """Returns (list of shard results, list of crash records, errors)."""
    q = queue.Queue()
    for i, s in enumerate(shards):
        q.put((i, s, []))
    results, crashes, errors = [], [], []
    lock = threading.Lock()
    timeout = getattr(mod, "SHARD_TIMEOUT", {}).get(tier, 1500)
    max_poison = getattr(mod, "MAX_POISON_PER_SHARD", 40)
    tmpdir = tempfile.mkdtemp(prefix="mcjournal-", dir=str(loader.BUILD))
    done = [0]

    def loop(idx):
        try:
            w = Worker(prop_id, tier, seed, idx, tmpdir)
        except Exception as e:  # noqa: BLE001
            with lock:
                errors.append("worker start: %r" % e)
            return
        while True:
            try:
                i, shard, skip = q.get_nowait()
            except queue.Empty:
                break
            r = w.run(shard, skip, timeout)
            if r["status"] == "ok":
                with lock:
                    results.append(r["result"])
                    if r["result"].get("error"):
                        errors.append("shard %r: %s" % (shard, r["result"]["error"]))
                    done[0] += 1
                    if done[0] % max(1, len(shards) // 10) == 0:
                        log("%d/%d shards" % (done[0], len(shards)))
                continue
            # died or timed out
            with lock:
                crashes.append({"shard": shard, "status": r["status"], "rc": r.get("rc"), "case": r.get("case")})
            try:
                w = Worker(prop_id, tier, seed, idx, tmpdir)
            except Exception as e:  # noqa: BLE001
                with lock:
                    errors.append("worker restart: %r" % e)
                return
            if r.get("case") and len(skip) < max_poison and r["case"] not in skip:
                q.put((i, shard, skip + [r["case"]]))
            else:
                with lock:
                    errors.append("shard %r abandoned after %s without attributable case (journal=%r)"
                                  % (shard, r["status"], r.get("case")))
        w.quit()

    threads = [threading.Thread(target=loop, args=(k,)) for k in range(max(1, min(jobs, len(shards))))]
    for t in threads:
        t.start()
    for t in threads:
        t.join()
    try:
        for f in os.listdir(tmpdir):
            os.unlink(os.path.join(tmpdir, f))
        os.rmdir(tmpdir)
    except OSError:
        pass
    return results, crashes, errors


# ---------------------------------------------------------------------------
# known findings
# ---------------------------------------------------------------------------
def load_known(prop_id):
    out = []
    if KNOWN.exists():
        data = json.loads(KNOWN.read_text())
        out += [f for f in data.get("findings", []) if f.get("property") == prop_id]
    # per-property proposal files (development convenience; merged into known_findings.json
    # by tools/merge_findings.py before committing)
    d = VERIF / "findings.d"
    if d.is_dir():
        for p in sorted(d.glob("*.json")):
            try:
                data = json.loads(p.read_text())
            except ValueError:
                continue
            out += [f for f in data.get("findings", []) if f.get("property") == prop_id]
    return out


def match_known(known, sig):
    for f in known:
        if f.get("sig") == sig:
            return f
        if f.get("sig_prefix") and sig.startswith(f["sig_prefix"]):
            return f
        if f.get("sig_re") and re.fullmatch(f["sig_re"], sig):
            return f
    return None


# ---------------------------------------------------------------------------
# replay
# ---------------------------------------------------------------------------
def write_replay(prop_id, v):
    d = REPLAYS / prop_id
    d.mkdir(parents=True, exist_ok=True)
    name = "%016x" % h64(json.dumps([v["sig"], v["case"]], sort_keys=True))
    p = d / (name + ".json")
    p.write_text(json.dumps({"property": prop_id, **v}, indent=1, sort_keys=True))
    return p


def do_replay(mod, prop_id, path, tier, seed):
    rec = json.loads(Path(path).read_text())
    ctx = Ctx(prop_id, tier, seed)
    if rec.get("sig", "").startswith("crash|") or rec.get("sig", "").startswith("hang|"):
        # run in a fork so that the crash is observed rather than suffered
        def go():
            c2 = Ctx(prop_id, tier, seed)
            mod.replay(rec["case"], c2)
            return [v["sig"] for v in c2.violations]
        r = ctx.isolated(go, timeout=getattr(mod, "REPLAY_TIMEOUT", 600))
        if r[0] == "signal":
            print("REPLAY crash signal=%d" % r[1])
            print("VIOLATION property=%s replay=%s" % (prop_id, path))
            return 1
        if r[0] == "timeout":
            print("REPLAY timeout")
            print("VIOLATION property=%s replay=%s" % (prop_id, path))
            return 1
        sigs = r[1] if r[0] == "ok" else []
        print("REPLAY sigs:", sigs, r if r[0] != "ok" else "")
        return 1 if sigs else 0
    try:
        mod.replay(rec["case"], ctx)
    except Exception as e:  # noqa: BLE001
        from mc.ctx import unguarded_violation

        if not unguarded_violation(ctx, e, rec["case"]):
            raise
    sigs = sorted({v["sig"] for v in ctx.violations})
    for v in ctx.violations:
        print("REPLAY violation sig=%s what=%s" % (v["sig"], v["what"]))
        print("   expected=%s" % json.dumps(v["expected"])[:600])
        print("   observed=%s" % json.dumps(v["observed"])[:600])
    if rec.get("sig") in sigs:
        print("VIOLATION property=%s replay=%s" % (prop_id, path))
        return 1
    if sigs:
        print("REPLAY: different signature(s) than recorded:", sigs)
        print("VIOLATION property=%s replay=%s" % (prop_id, path))
        return 1
    print("REPLAY: no violation reproduced")
    return 0


def confirm(prop_id, path, tier, seed):
    """Re-run a replay twice in fresh processes; True if both reproduce."""
    outs = []
    for _ in range(2):
        r = subprocess.run([PY, str(VERIF / "mc" / "runner.py"), prop_id, "--tier", tier, "--replay", str(path),
                            "--no-build"], capture_output=True, text=True, cwd=str(VERIF),
                           env={**os.environ, "VERIF_SEED": str(seed)})
        outs.append(r.returncode)
    return outs == [1, 1], outs


# ---------------------------------------------------------------------------
def main():
    ap = argparse.ArgumentParser()
    ap.add_argument("prop")
    ap.add_argument("--tier", default=os.environ.get("VERIF_TIER", "quick"), choices=["quick", "thorough"])
    ap.add_argument("--replay")
    ap.add_argument("--jobs", type=int, default=int(os.environ.get("VERIF_JOBS", "16")))
    ap.add_argument("--no-build", action="store_true")
    ap.add_argument("--only", help="substring filter on shard descriptors (debugging; evidence marks it non-exhaustive)")
    a = ap.parse_args()
    prop_id = a.prop.upper()
    seed = int(os.environ.get("VERIF_SEED", "0") or 0)
    t0 = time.time()

    try:
        notes = [] if a.no_build else loader.ensure_built(verbose=True)
        loader.install()
        mod = importlib.import_module("props." + prop_id.lower())
    except Exception as e:  # noqa: BLE001
        log("cannot set up: %r" % e)
        import traceback
        traceback.print_exc()
        return 2

    if a.replay:
        return do_replay(mod, prop_id, a.replay, a.tier, seed)

    try:
        prep = mod.prepare(a.tier, seed) if hasattr(mod, "prepare") else None
        shards = list(mod.shards(a.tier, seed))
    except Exception as e:  # noqa: BLE001
        log("prepare/shards failed: %r" % e)
        import traceback
        traceback.print_exc()
        return 2
    filtered = False
    if a.only:
        shards = [s for s in shards if a.only in json.dumps(s)]
        filtered = True
    log("%s tier=%s seed=%d shards=%d jobs=%d" % (prop_id, a.tier, seed, len(shards), a.jobs))
    results, crashes, errors = run_pool(mod, prop_id, a.tier, seed, shards, a.jobs)

    # aggregate
    agg = {"evaluations": 0, "nontrivial": 0, "transitions": 0, "traces": 0, "viol_total": 0}
    counters, outcomes, states, samples, viol, viol_per_sig = {}, set(), set(), [], [], {}
    for r in results:
        for k in agg:
            agg[k] += r[k]
        for k, v in r["counters"].items():
            counters[k] = counters.get(k, 0) + v
        outcomes |= r["outcomes"]
        states |= r["states"]
        if len(samples) < 8 and r["samples"]:
            samples.append(r["samples"][0])
        viol.extend(r["violations"])
        for k, v in r["viol_per_sig"].items():
            viol_per_sig[k] = viol_per_sig.get(k, 0) + v
        for n in r["notes"]:
            if n not in notes:
                notes.append(n)
    for c in crashes:
        kind = "hang" if c["status"] == "timeout" else "crash"
        detail = ("signal %d" % -c["rc"]) if (c.get("rc") or 0) < 0 else ("exit %r" % c.get("rc"))
        case = c.get("case")
        try:
            case_obj = json.loads(case) if case else None
        except ValueError:
            case_obj = case
        cls = mod.crash_class(case_obj) if hasattr(mod, "crash_class") and case_obj is not None else "unclassified"
        sig = "%s|%s" % (kind, cls)
        viol.append({"sig": sig, "what": "process %s (%s) while executing case" % (
            "did not terminate" if kind == "hang" else "terminated", detail),
            "case": case_obj, "expected": "live process", "observed": detail})
        viol_per_sig[sig] = viol_per_sig.get(sig, 0) + 1
        agg["viol_total"] += 1

    if errors:
        for e in errors[:5]:
            log("ERROR", e)
        log("check could not run cleanly (%d harness errors)" % len(errors))
        return 2

    known = load_known(prop_id)
    known_hits, new = {}, []
    for v in viol:
        f = match_known(known, v["sig"])
        if f is not None:
            known_hits.setdefault(f.get("sig") or f.get("sig_prefix") or f.get("sig_re"), (f, 0))
            key = f.get("sig") or f.get("sig_prefix") or f.get("sig_re")
            known_hits[key] = (f, known_hits[key][1] + 1)
        else:
            new.append(v)
    # totals per known entry (viol list is capped per sig; use viol_per_sig for counts)
    known_counts = {}
    for sig, n in viol_per_sig.items():
        f = match_known(known, sig)
        if f is not None:
            key = f.get("sig") or f.get("sig_prefix") or f.get("sig_re")
            known_counts[key] = known_counts.get(key, 0) + n
    for key, (f, _) in sorted(known_hits.items()):
        print("KNOWN-FINDING: property=%s %s [%s; %d case(s) this run]" % (prop_id, f.get("what", key), key,
                                                                          known_counts.get(key, 0)))

    exit_code = 0
    reported = set()
    unconfirmed = []
    for v in new:
        if v["sig"] in reported:
            continue
        reported.add(v["sig"])
        p = write_replay(prop_id, v)
        if hasattr(mod, "replay") and len(reported) <= 4:
            ok, outs = confirm(prop_id, p, a.tier, seed)
            if not ok:
                unconfirmed.append((v["sig"], str(p), outs))
                continue
        print("VIOLATION property=%s replay=%s" % (prop_id, p))
        print("  sig=%s\n  what=%s\n  case=%s\n  expected=%s\n  observed=%s" % (
            v["sig"], v["what"], json.dumps(v["case"])[:800], json.dumps(v["expected"])[:500],
            json.dumps(v["observed"])[:500]))
        exit_code = 1
    if unconfirmed and exit_code == 0:
        for u in unconfirmed:
            log("harness nondeterminism: violation did not reproduce from a fresh process: %r" % (u,))
        exit_code = 2

    nviol_new = sum(n for s, n in viol_per_sig.items() if match_known(known, s) is None)
    cov = {
        "evaluations": agg["evaluations"],
        "distinct_nontrivial": agg["nontrivial"],
        "rule": getattr(mod, "RULE", ""),
        "samples": samples or [{"note": "no samples recorded"}],
        "exhaustive": (not filtered) and bool(getattr(mod, "EXHAUSTIVE", True)),
        "bounds": (mod.bounds(a.tier) if hasattr(mod, "bounds") else {}),
        "shards": len(shards),
        "distinct_outcomes": len(outcomes),
        "counters": dict(sorted(counters.items())),
        "known_finding_hits": dict(sorted(known_counts.items())),
        "crashes_observed": len(crashes),
    }
    if states or agg["transitions"]:
        cov["states"] = len(states)
        cov["transitions"] = agg["transitions"]
        cov["traces_validated_against_impl"] = agg["traces"]
    if isinstance(prep, dict):
        cov.update(prep)
    if hasattr(mod, "finalize"):
        try:
            cov.update(mod.finalize(cov) or {})
        except Exception as e:  # noqa: BLE001
            log("finalize failed: %r" % e)
    ev = {
        "property_id": prop_id,
        "tier": a.tier,
        "seed": seed,
        "level": getattr(mod, "LEVEL", "model_checking"),
        "coverage": cov,
        "assumptions": list(getattr(mod, "ASSUMPTIONS", [])) + notes,
        "wall_s": round(time.time() - t0, 2),
        "violations": nviol_new,
    }
    EVID.mkdir(exist_ok=True)
    try:
        import jsonschema

        jsonschema.validate(ev, json.loads(SCHEMA.read_text()))
    except ImportError:
        pass
    except Exception as e:  # noqa: BLE001
        log("evidence does not validate: %s" % str(e)[:500])
        (EVID / (prop_id + ".json")).write_text(json.dumps(ev, indent=1))
        return 2
    (EVID / (prop_id + ".json")).write_text(json.dumps(ev, indent=1) + "\n")
    log("%s done: evaluations=%d nontrivial=%d states=%d transitions=%d outcomes=%d new_violations=%d known=%d wall=%.1fs exit=%d"
        % (prop_id, agg["evaluations"], agg["nontrivial"], len(states), agg["transitions"], len(outcomes),
           nviol_new, sum(known_counts.values()), time.time() - t0, exit_code))
    return exit_code


if __name__ == "__main__":
    sys.exit(main())
