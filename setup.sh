#!/bin/sh
# Build everything the checks need from files on disk (offline).
cd "$(dirname "$0")" || exit 2
mkdir -p build/ext evidence replays
/venv/bin/python mc/loader.py || exit 2
/venv/bin/python -c "import sys; sys.path.insert(0, \".\"); from mc import loader; loader.install(); from mc import ccd; ccd.ensure_ccd()" || exit 2
/venv/bin/python -c "import jsonschema, numpy, networkx, msgpack" || exit 2
echo "[setup] ok"
